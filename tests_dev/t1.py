import sys, time
sys.path.insert(0, '/verif')
from mirse import mir, engine, models, sym
from mirse.engine import *
text = open('/var/tmp/hv/swar-rel.mir').read()
M = mir.parse_mir(text)
srcs = [open('/repo/src/lib.rs').read()]
enums = mir.parse_enums(srcs)
print(enums)
E = Engine(M, '/repo', enums, models=models.MODELS)
N = int(sys.argv[1]); entry = sys.argv[2] if len(sys.argv) > 2 else 'parse_chunk_size'
f = E.funcs[entry]
work = [[]]; leaves = 0; t0 = time.time(); outcomes = {}; total = 0; nz3 = 0
while work:
    dec = work.pop()
    E.reset(dec)
    buf = [E.new_byte() for _ in range(N)]
    try:
        r = E.call_func(f, [Ref(buf, (0,), N, 'buf')])
        k = repr(r)[:60]
    except Panic as e:
        k = 'PANIC ' + str(e)
    except Infeasible:
        continue
    leaves += 1; outcomes[k] = outcomes.get(k, 0) + 1
    mc = E.model_count(); total += mc or 0; nz3 += E.nz3
    work.extend(E.pending)
print(leaves, 'leaves', time.time() - t0, 's', 'count ok' if total == 256 ** N else f'count {total} vs {256**N}', 'z3', nz3)
for k, v in sorted(outcomes.items(), key=lambda x: -x[1])[:20]: print(v, k)
