import sys, time
sys.path.insert(0, '/verif')
from mirse import explore, harness
kind = sys.argv[1]; n = int(sys.argv[2]); serial = len(sys.argv) > 3 and sys.argv[3] == 'serial'
prefix = {'headers': b'', 'req': b'GET / HTTP/1.1\r\n', 'resp': b'HTTP/1.1 200 OK\r\n', 'chunk': b''}[kind]
flags = [False]*7
if len(sys.argv) > 4: flags = [ 'sym' if c=='s' else c=='1' for c in sys.argv[4]]
sc = dict(kind=kind, api='cfg', prefix=prefix, nsym=n, suffix=b'', flags=flags, cap=1, cells='sentinel', variant='swar-rel')
params = {'variants': ['swar-rel'], 'scenario': sc, 'groups': ['safety', 'ref', 'framing', 'zerocopy', 'hygiene', 'storage'], 'prop': 'CXX', 'xcheck_every': 20}
t0 = time.time()
a = explore.explore('mirse.props.product.leaf', params, budget_s=600, serial=serial)
dt = time.time() - t0
print(f'{a.paths} paths {dt:.1f}s  dec {a.decisions} z3 {a.z3} tab {a.tab} steps {a.steps} obl {a.obligations} xchk {a.xchecked} bad {len(a.xcheck_bad)} count {a.count_sum} unk {a.count_unknown} incomplete {a.incomplete}')
print(a.outcomes)
for e in a.errors[:5]: print('ERR', e)
for v in a.violations[:8]: print('VIOL', v['prop'], v['msg'], v['buf'], v['flags'])
for b in a.xcheck_bad[:3]: print('XBAD', b)
print(a.samples[:2])
explore.close_pool()
