import sys, time
sys.path.insert(0, '/verif')
from mirse import explore, harness
from mirse.props.jobs import *
kind = sys.argv[1]; n = int(sys.argv[2]); fl = sys.argv[3] if len(sys.argv) > 3 else '0000000'
prefix = eval(sys.argv[4]) if len(sys.argv) > 4 else b''
suffix = eval(sys.argv[5]) if len(sys.argv) > 5 else b''
flags = ['sym' if c == 's' else c == '1' for c in fl]
j = product_job('CXX', 't', ['safety', 'ref', 'framing', 'zerocopy', 'hygiene', 'storage'], sc(kind, n, prefix=prefix, suffix=suffix, fl=flags, cap=1), 600, 'b')
t0 = time.time()
a = explore.explore(j.fn, j.params, budget_s=600)
dt = time.time() - t0
print(f'{a.paths} paths {dt:.1f}s  dec {a.decisions} z3 {a.z3} tab {a.tab} obl {a.obligations} xchk {a.xchecked} bad {len(a.xcheck_bad)} cert {a.count_sum == j.params["space"]} unk {a.count_unknown} incomplete {a.incomplete}')
print(a.outcomes)
for e in a.errors[:5]: print('ERR', e)
for v in a.violations[:8]: print('VIOL', v['prop'], v['msg'], v['buf'], v['flags'])
for b in a.xcheck_bad[:3]: print('XBAD', b)
explore.close_pool()
