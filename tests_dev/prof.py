import sys, cProfile, pstats
sys.path.insert(0, '/verif')
sys.argv = ['t2', 'headers', '6', 'serial']
cProfile.run(open('/verif/tests_dev/t2.py').read(), '/tmp/prof.out')
p = pstats.Stats('/tmp/prof.out'); p.sort_stats('tottime').print_stats(35)
