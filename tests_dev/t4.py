import sys, time
sys.path.insert(0, '/verif')
from mirse import explore
from mirse.props.jobs import *
L = int(sys.argv[1])
NOCTL = [b for b in range(256) if b < 0x80 and b != 0x20]
j = product_job('C06', 't', ['ref'], sc('req', L, prefix=b'X ', suffix=b' HTTP/1.1\r\n\r\n', api='parse', cap=1, fixed={i: NOCTL for i in range(L)}), 600, 'b')
t0 = time.time()
a = explore.explore(j.fn, j.params, budget_s=600)
print(a.paths, time.time() - t0, a.outcomes, a.z3)
import collections
c = collections.Counter()
for s in a.samples: print(s['witness_buf'][4:4+2*L], s['outcome'], s['path_condition'][-3:])
explore.close_pool()
