#!/bin/bash
# patchscratch.sh <name> <patch.diff> <check-id>... : run checks against a scratch worktree of /repo with an arbitrary patch applied
name=$1; patch=$2; shift; shift
w=/tmp/mutwork/$name; out=/tmp/mutout/$name; mkdir -p /tmp/mutwork $out
git -C /repo worktree remove --force $w 2>/dev/null
git -C /repo worktree add -q --detach $w HEAD || exit 9
git -C $w apply $patch || { echo "patch does not apply"; exit 9; }
for chk in "$@"; do
  ( cd /verif && VERIF_REPO=$w VERIF_OUT=$out timeout 3000 ./check $chk --tier quick > $out/$chk.log 2>&1; echo "exit=$?" >> $out/$chk.log )
  echo "patch=$name check=$chk $(tail -1 $out/$chk.log) $(grep -c VIOLATION $out/$chk.log) violation lines"
  grep -m2 "INCONCLUSIVE\|VIOLATION" -B1 $out/$chk.log | cut -c1-400
done
git -C /repo worktree remove --force $w
