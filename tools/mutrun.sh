#!/bin/bash
# mutrun.sh <seeded-id> <check-id> [tier]: apply seeded patch to /repo, run a check, always undo
id=$1; chk=$2; tier=${3:-quick}
cd /repo && git diff --quiet || { echo "/repo dirty"; exit 9; }
git -C /repo apply /verif/seeded/$id/patch.diff || exit 9
cd /verif && timeout 3000 ./check $chk --tier $tier > /tmp/mutrun_${id}_${chk}.log 2>&1; rc=$?
git -C /repo checkout -- .
echo "mutant=$id check=$chk tier=$tier exit=$rc"; grep -E "VIOLATION|INCONCLUSIVE|KNOWN|OK " /tmp/mutrun_${id}_${chk}.log | head -5
grep -B1 "VIOLATION" /tmp/mutrun_${id}_${chk}.log | head -4
