#!/bin/bash
# harvest.sh <ID>  : confirm a seeded change in its scratch worktree /tmp/mut/<ID>, then keep it under /verif/seeded/<ID>
set -u
id=$1; d=/tmp/mut/$id; lid=$(echo $id | tr A-Z a-z)
cd $d || exit 1
demo=$(ls tests/demo_* 2>/dev/null | head -1)
[ -f patch.diff ] || { echo "no patch.diff"; exit 1; }
export CARGO_NET_OFFLINE=true
# state: patch applied + demo present
mkdir -p /tmp/mut/hold_$id; 
log=/tmp/mut/hold_$id/log.txt; : > $log
if [ -n "$demo" ]; then mv $demo /tmp/mut/hold_$id/; fi
echo "== (a) existing suite with patch" >> $log
cargo test --offline 2>&1 | grep -E "^test result|FAILED|error" >> $log; a=$?
suite_ok=$(grep -c "^test result: ok" $log); suite_fail=$(grep -c "FAILED\|^error" $log)
if [ -n "$demo" ]; then mv /tmp/mut/hold_$id/$(basename $demo) $demo; fi
echo "== (b) demo with patch" >> $log
cargo test --offline --test $(basename $demo .rs) > /tmp/mut/hold_$id/b.txt 2>&1
grep -E "^test result|error\[" /tmp/mut/hold_$id/b.txt | head -5 >> $log
b_fail=$(grep -c "^test result: FAILED" /tmp/mut/hold_$id/b.txt)
git apply -R patch.diff || { echo "patch does not reverse"; exit 1; }
echo "== (c) demo without patch" >> $log
cargo test --offline --test $(basename $demo .rs) 2>&1 | grep -E "^test result|panicked|error\[" | head -5 >> $log
c_ok=$(tail -3 $log | grep -c "test result: ok")
git apply patch.diff
cat $log
echo "suite_ok=$suite_ok suite_fail=$suite_fail demo_fails_with_patch=$b_fail demo_passes_without=$c_ok"
if [ "$suite_fail" = 0 ] && [ "$suite_ok" -ge 3 ] && [ "$b_fail" -ge 1 ] && [ "$c_ok" -ge 1 ]; then
  mkdir -p /verif/seeded/$id
  cp patch.diff /verif/seeded/$id/; cp $demo /verif/seeded/$id/; [ -f NOTES.md ] && cp NOTES.md /verif/seeded/$id/
  cp $log /verif/seeded/$id/confirm.log
  echo CONFIRMED
else
  echo NOT-CONFIRMED
fi
rm -rf /tmp/mut/hold_$id
