#!/bin/bash
# run_all.sh <tier> [ids...]: run checks sequentially, print one summary line each
tier=${1:-quick}; shift
ids=${@:-C01 C02 C03 C04 C05 C06 C07 C08 C09 C10 C11 C12 C13 C14 C15 C16 C17 C18 C19 C20}
cd "$(dirname "$0")/.."
mkdir -p logs
for id in $ids; do
  t0=$(date +%s)
  ./check $id --tier $tier > logs/$id.$tier.log 2>&1; rc=$?
  t1=$(date +%s)
  echo "$id tier=$tier exit=$rc wall=$((t1-t0))s $(tail -1 logs/$id.$tier.log | cut -c1-160)"
done
