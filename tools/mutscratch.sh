#!/bin/bash
# mutscratch.sh <seeded-id> <check-id>... : run checks against a scratch worktree with the seeded patch applied (for development;
# the registered way is tools/mutrun.sh which patches /repo itself). Results: /tmp/mutout/<seeded-id>/<check>.log
id=$1; shift
w=/tmp/mutwork/$id; out=/tmp/mutout/$id; mkdir -p /tmp/mutwork $out
git -C /repo worktree remove --force $w 2>/dev/null
git -C /repo worktree add -q --detach $w HEAD || exit 9
git -C $w apply /verif/seeded/$id/patch.diff || exit 9
for chk in "$@"; do
  tier=quick
  ( cd /verif && VERIF_REPO=$w VERIF_OUT=$out timeout 3000 ./check $chk --tier $tier > $out/$chk.log 2>&1; echo "exit=$?" >> $out/$chk.log )
  echo "mutant=$id check=$chk $(tail -1 $out/$chk.log) $(grep -c VIOLATION $out/$chk.log) violation lines; $(grep -m1 -B1 VIOLATION $out/$chk.log | head -1 | cut -c1-220)"
  grep -m2 "INCONCLUSIVE" $out/$chk.log | cut -c1-300
done
git -C /repo worktree remove --force $w
