#!/usr/bin/env python3
import json
P = {}
def add(pid, technique, text, note, engine='mirse', ref='4'):
    P[pid] = dict(technique=technique, text=text, note=note, engine=engine, ref=ref)

COMMON_NOTE = ('Trusted base: rustc MIR -> machine code; the core/intrinsic models in mirse/models.py; z3 (single-byte branch conditions are decided by an exact 256-entry '
               'truth-table domain, re-decided by z3 on sampled paths and backed by a model-count partition certificate). Bounded claim: nothing is said beyond the stated lengths.')
add('C01', 'symbolic execution of rustc MIR (own engine) + z3: every failure condition (overflow/bounds asserts, OOB pointer, uninit read, panic, fuel) on every path',
    'Every path of every public entry point, for all inputs within the bounds, all 128 configurations, capacities 0..3, four build variants and every scanner back end (NEON via its real aarch64 MIR), is shown free of panics, overflow, out-of-allocation accesses and uninitialised reads; the buffer allocation is exact, so an over-read is a reported failure whatever lies behind the buffer.',
    COMMON_NOTE)
add('C02', 'self-composition under symbolic execution of MIR + z3 (prefix run vs full run on shared symbolic bytes)',
    'For every buffer within the bounds and every split point, the result on the prefix and on the whole buffer satisfy the streaming relation (Complete/Err stable, reported fields final).', COMMON_NOTE)
add('C03', 'product of implementation MIR with an independent linear-scan reference (MIR) + z3', 'n equals the end of the first empty line on every Complete path; no Partial path has an empty line in the buffer.', COMMON_NOTE)
add('C04', 'symbolic execution of MIR with allocation-tagged pointers (dynamic half only)', 'Every returned slice is shown to point into the input buffer, inside buf[..n], in order. The lifetime (static) half of the property is outside what an SMT encoding of MIR can decide and is NOT claimed.',
    COMMON_NOTE + ' The static half (borrow checker over all client programs) is not covered.')
add('C05', 'symbolic execution of MIR + one z3 query per path over byte classes and a UTF-8 automaton', 'Per path: path condition AND (a field byte outside its class OR a &str not well-formed UTF-8 OR NUL / bare CR in buf[..n]) is unsat.', COMMON_NOTE)
add('C06', 'product program (implementation MIR x reference-grammar MIR) under symbolic execution + z3', 'Status, n, error kind, method/path/version of every request buffer within the bounds equal the reference grammar\'s.', COMMON_NOTE + ' The reference model /verif/refmodel is part of the trusted base.')
add('C07', 'product program (implementation MIR x reference-grammar MIR) + z3 (status code as an arithmetic query)', 'Status, n, version, code (all 1000 codes via symbolic digits) and reason equal the reference grammar\'s.', COMMON_NOTE + ' The reference model is part of the trusted base.')
add('C08', 'product program (implementation MIR x reference header grammar MIR) + z3', 'Header count and each header\'s (name, value) location equal the reference parser\'s on every path: nothing dropped, merged, split or reordered.', COMMON_NOTE + ' The reference model is part of the trusted base.')
add('C09', 'Kani/CBMC bounded model checking of the compiled crate (both profiles) + MIR product with the reference (both profiles)', 'parse_chunk_size equals the reference automaton (value, offset, language) for every buffer within the bound, in debug-assertion and release control flow; CBMC overflow checks on.',
    'Trusted base: Kani/CBMC translation of the compiled crate, cadical; plus the engine-M base for the short-input product. Bounds: 12 bytes (quick) / 20 bytes (thorough).', engine='kani+mirse')
add('C10', 'product program restricted to Err leaves + capacity sweeps + z3', 'On every rejecting path the error kind equals the reference\'s first-offending-byte classification; TooManyHeaders exactly when the surplus line completes.', COMMON_NOTE)
add('C11', 'nested symbolic exploration (completion set) + one z3 coverage query per Partial path', 'Every Partial path condition is covered by the union of the Complete sub-paths of some completion, except the stated UTF-8 deferral.', COMMON_NOTE + ' Completion set Sigma is finite and listed in mirse/props/c11.py.')
add('C12', 'symbolic execution of every scanner back end (x86 SSE4.2/AVX2, NEON via aarch64 MIR, SWAR 64/32-bit) + z3 over vector-intrinsic models', 'Every scanner stops exactly at the first out-of-class byte for all buffers of length <= L, all 256 values per lane; block functions are decided completely for their width.',
    COMMON_NOTE + ' Intrinsic models follow the vendor pseudocode; NEON results cannot be replayed natively here.')
add('C13', 'pairwise MIR products across build variants + reachable-set (all-interleavings) model of the runtime-feature cell + z3 validity over the cfg lattice', 'Back-end and profile independence by products on shared symbolic inputs (x86-64 word-at-a-time vs runtime dispatch vs compile-time SSE4.2/AVX2 vs no_std; i686 vs the reference); thread-timing independence over ALL interleavings: before every atomic operation the cache cell holds any value of the reachable set (fixpoint over the dispatch code), on all four CPU kinds; exactly-one-provider for every assignment of the cfg atoms.', COMMON_NOTE)
add('C14', 'product program with all header options symbolic + z3', 'For all 16 (responses) / 4 (requests) option combinations at once, results equal the reference parser parameterised by the same options.', COMMON_NOTE + ' The reference model is part of the trusted base.')
add('C15', 'two implementation runs (default vs symbolic options) on shared symbolic bytes + z3', 'Default-accepted inputs give the identical result under all 128 configurations (reason modulo the documented strip); other-kind options never change any outcome.', COMMON_NOTE)
add('C16', 'pairwise products of entry points on shared symbolic inputs', 'All entry-point flavours return equal status, fields and headers; parse_headers agrees with the header part of messages.', COMMON_NOTE)
add('C17', 'symbolic execution with a cell-level header-array model (sentinel / uninit) + capacity-pair products', 'Count, untouched slots, restore-on-failure, no uninit exposure on every path; capacity law by comparing capacity c with 3.', COMMON_NOTE)
add('C18', 'one inductive step from an arbitrary pre-state (opaque fields and slots) vs a fresh value, plus two-step same-memory loops (arbitrary pre-state, parse of a prefix of the probe buffer, probe) under symbolic execution of MIR + z3', 'Status always equal, Complete results equal and free of pre-state values; histories of any length follow from the arbitrary pre-state plus C17\'s invariant re-establishment.', COMMON_NOTE)
add('C19', 'path-sensitive callee whitelist under symbolic execution of MIR + z3, process environment as a nondeterministic stub (+ no_std build matrix as a build fact)', 'No explored path of any entry point reaches an allocator-family callee; the no_std build matrix (16 switch combinations) builds. The build half is exercised, not solver-decided.', COMMON_NOTE)
add('C20', 'engine counters (cursor travel, per-byte loads, MIR steps) on every symbolic path + doubling criterion on adversarial families', 'Cursor travel equals the consumed length (exact) and per-byte loads are bounded on every path; doubling an adversarial input at most doubles reads and steps.', COMMON_NOTE + ' Wall-clock time is not measured by the check itself.')

checks = []
for pid in sorted(P):
    p = P[pid]
    checks.append({
        'property_id': pid,
        'quick_cmd': f'./check {pid} --tier quick',
        'thorough_cmd': f'./check {pid} --tier thorough',
        'evidence_file': f'/verif/evidence/{pid}.json',
        'replay_cmd_template': f'./check {pid} --replay {{path}}',
        'engine': p['engine'],
        'level_claimed': {'category': 'model_checking', 'text': p['text'] + ' Bounded: the bounds actually completed are reported in the evidence file of each run.', 'design_ref': f'DESIGN.md section 4 ({pid})'},
        'level_note': p['note'],
        'technique': p['technique'],
    })
m = {
    'version': 1,
    'setup_cmd': './tools/setup.sh',
    'hooks': {'guard': 'httparse_verif', 'enable': 'no source hooks are needed: engine M reads private functions from rustc\'s MIR dump, counters live in the interpreter, Kani uses the public API',
              'baseline_off_cmd': 'cd /repo && cargo test --workspace --no-fail-fast --offline', 'source_commits': [], 'add_only': True},
    'engines': [
        {'name': 'mirse', 'path': '/verif/mirse', 'serves_properties': sorted(P), 'kind_free_text': 'path-wise symbolic executor over rustc MIR text (9 build variants + reference model), z3 decides multi-byte branches and all verdict queries; native replay gate'},
        {'name': 'kani', 'path': '/verif/kani', 'serves_properties': ['C09'], 'kind_free_text': 'Kani 0.68 / CBMC proof harnesses over the compiled crate with the reference model as spec'},
        {'name': 'lattice', 'path': '/verif/mirse/lattice.py', 'serves_properties': ['C13'], 'kind_free_text': 'z3 validity over the cfg attributes of src/simd/mod.rs'},
    ],
    'checks': checks,
    'not_applicable': [],
    'notes': 'All 20 properties are claimed with bounded solver-based checks. Parts outside the technique are stated per check: C04 static/lifetime half (not claimed; seeded change C04c, a lifetime-only signature edit, is accordingly not detected - DESIGN section 12 round 6), C13 "every switch combination compiles" and C19 "builds against core alone" (build facts exercised by building 9 MIR variants and a 16-point no_std matrix, not solver verdicts). Exit codes: 0 held, 1 VIOLATION (natively replayed), 2 inconclusive (never reported as pass). known_findings.json records one fixed defect (C09, chunk-size lines without digits).',
}
json.dump(m, open('/verif/MANIFEST.json', 'w'), indent=1)
print('ok', len(checks))
