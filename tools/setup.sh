#!/bin/bash
# Offline setup after a fresh restore: build what the checks share, from files on disk only.
set -e
cd "$(dirname "$0")/.."
export CARGO_NET_OFFLINE=true
python3-vt - <<'PY'
import sys
sys.path.insert(0, '.')
from mirse import build
# MIR of the variants most checks use, the reference model's MIR and the replay binaries (all cached by source hash)
for v in ('swar-rel', 'swar-dbg', 'x86-rt'): build.get_mir(v)
build.get_ref_mir()
for p in ('dev-swar', 'release-swar'): build.get_replay_bin(p)
# UTF-8 model self-test: engine model vs python's decoder on all 1-3 byte sequences is covered by the product runs; quick sanity here
print('setup ok')
PY
