#![no_std]
#![allow(clippy::all)]
//! Reference model for httparse, written from the property texts (RFC 7230 grammar plus the documented
//! leniency options), deliberately in the dumbest possible style: index arithmetic on `&[u8]`, one
//! function per grammar rule, class tables built from `matches!` ranges, no `unsafe`, no iterators, no
//! code or tables shared with httparse.  It is used three ways: compiled to MIR and executed by engine M
//! in product with the implementation, natively inside the replay binary, and as the spec inside the
//! Kani harnesses.

pub const K: usize = 4;

pub const COMPLETE: u8 = 100;
pub const PARTIAL: u8 = 101;
// error kinds: the numbering follows the declaration order of httparse::Error so that the
// harness can compare numbers; it is checked against the enum parsed from src/lib.rs at run time.
pub const E_NAME: u8 = 0;
pub const E_VALUE: u8 = 1;
pub const E_NEWLINE: u8 = 2;
pub const E_STATUS: u8 = 3;
pub const E_TOKEN: u8 = 4;
pub const E_TOOMANY: u8 = 5;
pub const E_VERSION: u8 = 6;
pub const E_CHUNK: u8 = 7;

#[derive(Clone, Copy)]
pub struct Opts {
    pub spaces_after_name: bool,
    pub folding: bool,
    pub space_before_first: bool,
    pub ignore_invalid: bool,
}
#[derive(Clone, Copy)]
pub struct Hdr { pub no: usize, pub nl: usize, pub vo: usize, pub vl: usize }
pub struct Out { pub kind: u8, pub n: usize, pub count: usize, pub h: [Hdr; K] }

const fn tchar_tab() -> [bool; 256] {
    let mut t = [false; 256]; let mut i = 0;
    while i < 256 {
        let b = i as u8;
        t[i] = matches!(b, b'0'..=b'9' | b'a'..=b'z' | b'A'..=b'Z' | b'!' | b'#' | b'$' | b'%' | b'&' | b'\'' | b'*' | b'+' | b'-' | b'.' | b'^' | b'_' | b'`' | b'|' | b'~');
        i += 1;
    }
    t
}
const fn vchar_tab() -> [bool; 256] {
    let mut t = [false; 256]; let mut i = 0;
    while i < 256 { let b = i as u8; t[i] = b == 9 || (b >= 0x20 && b != 0x7f); i += 1; }
    t
}
const fn uchar_tab() -> [bool; 256] {
    let mut t = [false; 256]; let mut i = 0;
    while i < 256 { let b = i as u8; t[i] = b >= 0x21 && b != 0x7f; i += 1; }
    t
}
static REF_TCHAR: [bool; 256] = tchar_tab();
static REF_VCHAR: [bool; 256] = vchar_tab();
static REF_UCHAR: [bool; 256] = uchar_tab();
pub fn tchar(b: u8) -> bool { REF_TCHAR[b as usize] }
pub fn vchar(b: u8) -> bool { REF_VCHAR[b as usize] }
pub fn uchar(b: u8) -> bool { REF_UCHAR[b as usize] }
pub fn ws(b: u8) -> bool { b == b' ' || b == b'\t' }

fn done(kind: u8, n: usize, count: usize, h: [Hdr; K]) -> Out { Out { kind, n, count, h } }

/// Header block: lines `name ':' OWS value OWS EOL`, terminated by an empty line.
pub fn ref_headers(buf: &[u8], o: &Opts, cap: usize) -> Out {
    let len = buf.len();
    let mut h = [Hdr { no: 0, nl: 0, vo: 0, vl: 0 }; K];
    let mut count = 0usize;
    let mut pos = 0usize;
    loop {
        if pos >= len { return done(PARTIAL, 0, count, h); }
        let b = buf[pos];
        if b == b'\r' {
            if pos + 1 >= len { return done(PARTIAL, 0, count, h); }
            if buf[pos + 1] == b'\n' { return done(COMPLETE, pos + 2, count, h); }
            return done(E_NEWLINE, 0, count, h);
        }
        if b == b'\n' { return done(COMPLETE, pos + 1, count, h); }
        let mut p = pos;
        // where the line turned out to be invalid, and with which kind (255 = still valid)
        let mut bad_at = 0usize; let mut bad_kind = 255u8;
        let mut no = 0usize; let mut nl = 0usize; let mut vo = 0usize; let mut vl = 0usize;
        if !tchar(b) {
            if o.space_before_first && count == 0 && ws(b) {
                while p < len && ws(buf[p]) { p += 1; }
                pos = p;
                continue;
            }
            bad_at = p; bad_kind = E_NAME;
        } else {
            no = p;
            while p < len && tchar(buf[p]) { p += 1; }
            if p >= len { return done(PARTIAL, 0, count, h); }
            nl = p - no;
            if buf[p] != b':' {
                if o.spaces_after_name && ws(buf[p]) {
                    while p < len && ws(buf[p]) { p += 1; }
                    if p >= len { return done(PARTIAL, 0, count, h); }
                    if buf[p] != b':' { bad_at = p; bad_kind = E_NAME; }
                } else { bad_at = p; bad_kind = E_NAME; }
            }
            if bad_kind == 255 {
                p += 1; // colon
                // leading whitespace / empty (possibly folded-empty) lines
                let mut have_value = false;
                loop {
                    while p < len && ws(buf[p]) { p += 1; }
                    if p >= len { return done(PARTIAL, 0, count, h); }
                    let c = buf[p];
                    if c == b'\r' || c == b'\n' {
                        let eol_at = p;
                        if c == b'\r' {
                            if p + 1 >= len { return done(PARTIAL, 0, count, h); }
                            if buf[p + 1] != b'\n' { return done(E_VALUE, 0, count, h); }
                            p += 2;
                        } else { p += 1; }
                        if o.folding {
                            if p >= len { return done(PARTIAL, 0, count, h); }
                            if ws(buf[p]) { continue; }
                        }
                        vo = eol_at; vl = 0;
                        break;
                    }
                    if vchar(c) { have_value = true; break; }
                    bad_at = p; bad_kind = E_VALUE; break;
                }
                if have_value {
                    vo = p;
                    let mut end; // end of raw value (before final EOL)
                    loop {
                        while p < len && vchar(buf[p]) { p += 1; }
                        if p >= len { return done(PARTIAL, 0, count, h); }
                        let c = buf[p];
                        end = p;
                        if c == b'\r' {
                            if p + 1 >= len { return done(PARTIAL, 0, count, h); }
                            if buf[p + 1] != b'\n' { return done(E_VALUE, 0, count, h); }
                            p += 2;
                        } else if c == b'\n' { p += 1; }
                        else { bad_at = p; bad_kind = E_VALUE; break; }
                        if o.folding {
                            if p >= len { return done(PARTIAL, 0, count, h); }
                            if ws(buf[p]) { continue; }
                        }
                        break;
                    }
                    if bad_kind == 255 {
                        // trim trailing SP / HT / CR / LF
                        while end > vo && (ws(buf[end - 1]) || buf[end - 1] == b'\r' || buf[end - 1] == b'\n') { end -= 1; }
                        vl = end - vo;
                    }
                }
            }
        }
        if bad_kind != 255 {
            if !o.ignore_invalid { return done(bad_kind, 0, count, h); }
            let mut q = bad_at;
            loop {
                if q >= len { return done(PARTIAL, 0, count, h); }
                let c = buf[q];
                if c == b'\r' {
                    if q + 1 >= len { return done(PARTIAL, 0, count, h); }
                    if buf[q + 1] != b'\n' { return done(bad_kind, 0, count, h); }
                    q += 2; break;
                }
                if c == b'\n' { q += 1; break; }
                if c == 0 { return done(bad_kind, 0, count, h); }
                q += 1;
            }
            pos = q;
            continue;
        }
        if count >= cap { return done(E_TOOMANY, 0, count, h); }
        if count < K { h[count] = Hdr { no, nl, vo, vl }; }
        count += 1;
        pos = p;
    }
}

// ---------------------------------------------------------------- start lines
pub struct Cfg { pub multi: bool, pub o: Opts }
pub struct Req {
    pub kind: u8, pub n: usize,
    pub has_method: bool, pub mo: usize, pub ml: usize,
    pub has_path: bool, pub to: usize, pub tl: usize,
    pub has_ver: bool, pub ver: u8,
    pub hdr_start: usize,
    pub count: usize, pub h: [Hdr; K],
}
pub struct Resp {
    pub kind: u8, pub n: usize,
    pub has_ver: bool, pub ver: u8,
    pub has_code: bool, pub d0: u8, pub d1: u8, pub d2: u8,
    pub has_reason: bool, pub ro: usize, pub rl: usize, pub rstatic: bool,
    pub hdr_start: usize,
    pub count: usize, pub h: [Hdr; K],
}

// returns (status, pos): status 0 = ok, PARTIAL, or an error kind
fn empty_lines(buf: &[u8]) -> (u8, usize) {
    let len = buf.len(); let mut pos = 0;
    loop {
        if pos >= len { return (PARTIAL, pos); }
        let b = buf[pos];
        if b == b'\r' {
            if pos + 1 >= len { return (PARTIAL, pos); }
            if buf[pos + 1] == b'\n' { pos += 2; continue; }
            return (E_NEWLINE, pos);
        }
        if b == b'\n' { pos += 1; continue; }
        return (0, pos);
    }
}
fn version(buf: &[u8], pos: usize) -> (u8, u8) {
    let lit = *b"HTTP/1.";
    let len = buf.len(); let mut i = 0;
    while i < 7 {
        if pos + i >= len { return (PARTIAL, 0); }
        if buf[pos + i] != lit[i] { return (E_VERSION, 0); }
        i += 1;
    }
    if pos + 7 >= len { return (PARTIAL, 0); }
    let d = buf[pos + 7];
    if d == b'0' { return (0, 0); }
    if d == b'1' { return (0, 1); }
    (E_VERSION, 0)
}
fn spaces(buf: &[u8], mut pos: usize) -> (u8, usize) {
    while pos < buf.len() && buf[pos] == b' ' { pos += 1; }
    if pos >= buf.len() { (PARTIAL, pos) } else { (0, pos) }
}
/// Unicode 15 table 3-7 (well-formed UTF-8 byte sequences)
pub fn utf8_ok(buf: &[u8], s: usize, e: usize) -> bool {
    let mut i = s;
    while i < e {
        let b = buf[i];
        if b < 0x80 { i += 1; continue; }
        let (n, lo, hi) =
            if b >= 0xc2 && b <= 0xdf { (1, 0x80u8, 0xbfu8) }
            else if b == 0xe0 { (2, 0xa0, 0xbf) }
            else if (b >= 0xe1 && b <= 0xec) || b == 0xee || b == 0xef { (2, 0x80, 0xbf) }
            else if b == 0xed { (2, 0x80, 0x9f) }
            else if b == 0xf0 { (3, 0x90, 0xbf) }
            else if b >= 0xf1 && b <= 0xf3 { (3, 0x80, 0xbf) }
            else if b == 0xf4 { (3, 0x80, 0x8f) }
            else { return false; };
        if i + n >= e { return false; }
        if buf[i + 1] < lo || buf[i + 1] > hi { return false; }
        let mut k = 2;
        while k <= n { if buf[i + k] < 0x80 || buf[i + k] > 0xbf { return false; } k += 1; }
        i += n + 1;
    }
    true
}

fn shift(o: &Out, pos: usize, h: &mut [Hdr; K]) {
    let mut i = 0;
    while i < o.count && i < K { h[i] = Hdr { no: o.h[i].no + pos, nl: o.h[i].nl, vo: o.h[i].vo + pos, vl: o.h[i].vl }; i += 1; }
}

pub fn ref_request(buf: &[u8], c: &Cfg, cap: usize) -> Req {
    let z = [Hdr { no: 0, nl: 0, vo: 0, vl: 0 }; K];
    let len = buf.len();
    let mut r = Req { kind: PARTIAL, n: 0, has_method: false, mo: 0, ml: 0, has_path: false, to: 0, tl: 0, has_ver: false, ver: 0, hdr_start: 0, count: 0, h: z };
    let (st, mut pos) = empty_lines(buf);
    if st != 0 { r.kind = st; return r; }
    let ms = pos;
    while pos < len && tchar(buf[pos]) { pos += 1; }
    if pos == ms { r.kind = E_TOKEN; return r; }   // a byte is present (empty_lines saw it) and it is not a tchar
    if pos >= len { return r; }
    if buf[pos] != b' ' { r.kind = E_TOKEN; return r; }
    r.has_method = true; r.mo = ms; r.ml = pos - ms; pos += 1;
    if c.multi { let (s, p) = spaces(buf, pos); if s != 0 { r.kind = s; return r; } pos = p; }
    let ts = pos;
    while pos < len && uchar(buf[pos]) { pos += 1; }
    if pos >= len { return r; }
    if buf[pos] != b' ' || pos == ts { r.kind = E_TOKEN; return r; }
    if !utf8_ok(buf, ts, pos) { r.kind = E_TOKEN; return r; }
    r.has_path = true; r.to = ts; r.tl = pos - ts; pos += 1;
    if c.multi { let (s, p) = spaces(buf, pos); if s != 0 { r.kind = s; return r; } pos = p; }
    let (s, v) = version(buf, pos);
    if s != 0 { r.kind = s; return r; }
    r.has_ver = true; r.ver = v; pos += 8;
    if pos >= len { return r; }
    if buf[pos] == b'\r' {
        if pos + 1 >= len { return r; }
        if buf[pos + 1] != b'\n' { r.kind = E_NEWLINE; return r; }
        pos += 2;
    } else if buf[pos] == b'\n' { pos += 1; } else { r.kind = E_NEWLINE; return r; }
    r.hdr_start = pos;
    let o = ref_headers(&buf[pos..], &c.o, cap);
    r.kind = o.kind; r.count = o.count;
    shift(&o, pos, &mut r.h);
    if o.kind == COMPLETE { r.n = pos + o.n; }
    r
}

pub fn ref_response(buf: &[u8], c: &Cfg, cap: usize) -> Resp {
    let z = [Hdr { no: 0, nl: 0, vo: 0, vl: 0 }; K];
    let len = buf.len();
    let mut r = Resp { kind: PARTIAL, n: 0, has_ver: false, ver: 0, has_code: false, d0: 0, d1: 0, d2: 0,
                       has_reason: false, ro: 0, rl: 0, rstatic: true, hdr_start: 0, count: 0, h: z };
    let (st, mut pos) = empty_lines(buf);
    if st != 0 { r.kind = st; return r; }
    let (s, v) = version(buf, pos);
    if s != 0 { r.kind = s; return r; }
    r.has_ver = true; r.ver = v; pos += 8;
    if pos >= len { return r; }
    if buf[pos] != b' ' { r.kind = E_VERSION; return r; }
    pos += 1;
    if c.multi { let (s, p) = spaces(buf, pos); if s != 0 { r.kind = s; return r; } pos = p; }
    let mut i = 0;
    while i < 3 {
        if pos >= len { return r; }
        let d = buf[pos];
        if d < b'0' || d > b'9' { r.kind = E_STATUS; return r; }
        if i == 0 { r.d0 = d - b'0'; } else if i == 1 { r.d1 = d - b'0'; } else { r.d2 = d - b'0'; }
        pos += 1; i += 1;
    }
    r.has_code = true;
    if pos >= len { return r; }
    let b = buf[pos];
    if b == b' ' {
        pos += 1;
        if c.multi { let (s, p) = spaces(buf, pos); if s != 0 { r.kind = s; return r; } pos = p; }
        let rs = pos; let mut obs = false;
        loop {
            if pos >= len { return r; }
            let ch = buf[pos];
            if ch == b'\r' {
                if pos + 1 >= len { return r; }
                if buf[pos + 1] != b'\n' { r.kind = E_STATUS; return r; }
                r.ro = rs; r.rl = pos - rs; pos += 2; break;
            }
            if ch == b'\n' { r.ro = rs; r.rl = pos - rs; pos += 1; break; }
            if !(ch == 9 || ch == b' ' || (ch >= 0x21 && ch <= 0x7e) || ch >= 0x80) { r.kind = E_STATUS; return r; }
            if ch >= 0x80 { obs = true; }
            pos += 1;
        }
        r.has_reason = true;
        r.rstatic = obs;
        if obs { r.ro = 0; r.rl = 0; }
    } else if b == b'\r' {
        if pos + 1 >= len { return r; }
        if buf[pos + 1] != b'\n' { r.kind = E_STATUS; return r; }
        pos += 2; r.has_reason = true; r.rstatic = true;
    } else if b == b'\n' { pos += 1; r.has_reason = true; r.rstatic = true; } else { r.kind = E_STATUS; return r; }
    r.hdr_start = pos;
    let o = ref_headers(&buf[pos..], &c.o, cap);
    r.kind = o.kind; r.count = o.count;
    shift(&o, pos, &mut r.h);
    if o.kind == COMPLETE { r.n = pos + o.n; }
    r
}

// ---------------------------------------------------------------- chunk size (C09)
pub struct Chunk { pub kind: u8, pub n: usize, pub size: u64, pub digits: usize }

pub fn hexval(b: u8) -> u8 {
    if b >= b'0' && b <= b'9' { b - b'0' }
    else if b >= b'a' && b <= b'f' { b - b'a' + 10 }
    else if b >= b'A' && b <= b'F' { b - b'A' + 10 }
    else { 255 }
}

pub fn ref_chunk(buf: &[u8]) -> Chunk {
    let len = buf.len();
    let mut pos = 0usize; let mut size = 0u64; let mut digits = 0usize;
    // 1..=16 hex digits
    loop {
        if pos >= len { return Chunk { kind: PARTIAL, n: 0, size: 0, digits }; }
        let d = hexval(buf[pos]);
        if d == 255 { break; }
        if digits == 16 { return Chunk { kind: E_CHUNK, n: 0, size: 0, digits }; }
        size = (size << 4) | (d as u64);
        digits += 1; pos += 1;
    }
    if digits == 0 { return Chunk { kind: E_CHUNK, n: 0, size: 0, digits }; }
    // optional SP / HTAB
    while pos < len && ws(buf[pos]) { pos += 1; }
    if pos >= len { return Chunk { kind: PARTIAL, n: 0, size: 0, digits }; }
    // optional extension: ';' then anything but CR
    if buf[pos] == b';' {
        pos += 1;
        while pos < len && buf[pos] != b'\r' { pos += 1; }
        if pos >= len { return Chunk { kind: PARTIAL, n: 0, size: 0, digits }; }
    }
    if buf[pos] != b'\r' { return Chunk { kind: E_CHUNK, n: 0, size: 0, digits }; }
    if pos + 1 >= len { return Chunk { kind: PARTIAL, n: 0, size: 0, digits }; }
    if buf[pos + 1] != b'\n' { return Chunk { kind: E_CHUNK, n: 0, size: 0, digits }; }
    Chunk { kind: COMPLETE, n: pos + 2, size, digits }
}

// ---------------------------------------------------------------- head framing (C03), independent of the header grammar
/// offset just past the first empty line ("\n" or "\r\n") at or after `from`, where `from` is a line start;
/// (false, 0) if there is none
pub fn first_empty_line(buf: &[u8], from: usize) -> (bool, usize) {
    let len = buf.len();
    let mut ls = from;
    loop {
        if ls >= len { return (false, 0); }
        if buf[ls] == b'\n' { return (true, ls + 1); }
        if buf[ls] == b'\r' && ls + 1 < len && buf[ls + 1] == b'\n' { return (true, ls + 2); }
        // skip to the end of this line
        let mut q = ls;
        while q < len && buf[q] != b'\n' { q += 1; }
        if q >= len { return (false, 0); }
        ls = q + 1;
    }
}
/// for requests / responses: skip leading empty lines, then the start line, then `first_empty_line`
pub fn head_end_message(buf: &[u8]) -> (bool, usize) {
    let len = buf.len();
    let mut pos = 0;
    loop {
        if pos >= len { return (false, 0); }
        if buf[pos] == b'\n' { pos += 1; continue; }
        if buf[pos] == b'\r' && pos + 1 < len && buf[pos + 1] == b'\n' { pos += 2; continue; }
        break;
    }
    while pos < len && buf[pos] != b'\n' { pos += 1; }
    if pos >= len { return (false, 0); }
    first_empty_line(buf, pos + 1)
}
