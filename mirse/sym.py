"""Symbolic values for engine M.

A symbolic value is an expression node `N`.  Nodes that depend on exactly ONE 8-bit input
variable (a buffer byte, a config flag) additionally carry an exact 256-entry truth table
(interned, so every derived table is computed once per process).  Branch conditions over such
nodes are decided by intersecting the table's 256-bit mask with the variable's current domain;
every other condition goes to z3.  The z3 translation (`zexpr`) is built from the expression
tree, never from the table, so the two are independent and are cross-checked against each other
(see explore.py: `xcheck`)."""
import numpy as np
import z3

MASK256 = (1 << 256) - 1


class N:
    __slots__ = ('w', 'var', 'tid', 'op', 'args', '_z', '_sup')

    def __init__(self, w, var, tid, op, args):
        self.w = w; self.var = var; self.tid = tid; self.op = op; self.args = args
        self._z = None; self._sup = None

    def __repr__(self):
        return f"N(w{self.w},{'v%d' % self.var if self.var is not None else 'multi'},{self.op})"

    def __deepcopy__(self, m): return self


# ------------------------------------------------------------------ table interning
TAB_ARR = []      # tid -> numpy array (uint64 for ints, bool for bools)
TAB_KEY = {}      # content -> tid
TAB_MASK = {}     # tid (bool) -> 256-bit int
OPCACHE = {}


def intern(arr):
    key = (arr.dtype.char, arr.tobytes())
    t = TAB_KEY.get(key)
    if t is None:
        t = len(TAB_ARR); TAB_ARR.append(arr); TAB_KEY[key] = t
    return t


ID_TID = intern(np.arange(256, dtype=np.uint64))


def mask_of(tid):
    m = TAB_MASK.get(tid)
    if m is None:
        a = TAB_ARR[tid]
        m = int.from_bytes(np.packbits(a.astype(bool), bitorder='little').tobytes(), 'little')
        TAB_MASK[tid] = m
    return m


def var_node(var):
    return N(8, var, ID_TID, 'var', (var,))


def flag_node(var):
    """config flag: 8-bit variable with domain {0,1}; the value is (var != 0)"""
    return binop('Ne', var_node(var), 0, 8, False)


def support(n):
    if n._sup is None:
        if n.op == 'var': n._sup = frozenset((n.args[0],))
        else:
            s = frozenset()
            for a in (n.args[1] if n.op == 'Raw' else n.args):
                if isinstance(a, N): s = s | support(a)
            n._sup = s
    return n._sup


def _wm(w): return (1 << w) - 1


def _tolist(x, w):
    if isinstance(x, np.ndarray):
        return [int(v) for v in x.tolist()]
    return [int(x) & _wm(w)] * 256


def _sx(v, w):
    return v - (1 << w) if v >> (w - 1) else v


CMP = {'Eq', 'Ne', 'Lt', 'Le', 'Gt', 'Ge'}


def _table_binop(op, la, lb, w, s):
    """exact semantics on python ints, elementwise; returns (list, is_bool) or pair for WithOverflow"""
    m = _wm(w)
    if s: xa = [_sx(v, w) for v in la]; xb = [_sx(v, w) for v in lb]
    else: xa, xb = la, lb
    if op in CMP:
        f = {'Eq': lambda x, y: x == y, 'Ne': lambda x, y: x != y, 'Lt': lambda x, y: x < y,
             'Le': lambda x, y: x <= y, 'Gt': lambda x, y: x > y, 'Ge': lambda x, y: x >= y}[op]
        return np.array([f(x, y) for x, y in zip(xa, xb)], dtype=bool)
    if op.endswith('WithOverflow'):
        f = {'Add': lambda x, y: x + y, 'Sub': lambda x, y: x - y, 'Mul': lambda x, y: x * y}[op[:3]]
        lo, hi = (-(1 << (w - 1)), (1 << (w - 1)) - 1) if s else (0, m)
        r = [f(x, y) for x, y in zip(xa, xb)]
        return (np.array([v & m for v in r], dtype=np.uint64), np.array([not (lo <= v <= hi) for v in r], dtype=bool))
    f = {'Add': lambda x, y: x + y, 'Sub': lambda x, y: x - y, 'Mul': lambda x, y: x * y,
         'AddUnchecked': lambda x, y: x + y, 'SubUnchecked': lambda x, y: x - y, 'MulUnchecked': lambda x, y: x * y,
         'BitAnd': lambda x, y: x & y, 'BitOr': lambda x, y: x | y, 'BitXor': lambda x, y: x ^ y,
         'Shl': lambda x, y: x << (y % w), 'ShlUnchecked': lambda x, y: x << (y % w),
         'Shr': lambda x, y: x >> (y % w), 'ShrUnchecked': lambda x, y: x >> (y % w),
         # Rust semantics: truncation toward zero; the engine only passes concrete non-zero divisors (and never -1 for signed)
         'Div': lambda x, y: (abs(x) // abs(y)) * (1 if (x < 0) == (y < 0) else -1),
         'Rem': lambda x, y: x - y * ((abs(x) // abs(y)) * (1 if (x < 0) == (y < 0) else -1))}[op]
    return np.array([f(x, y) & m for x, y in zip(xa, xb)], dtype=np.uint64)


def binop(op, a, b, w, s):
    """a, b: N or python int (already reduced mod 2^w); w: operand width; returns N / (N, N) / python value"""
    an, bn = isinstance(a, N), isinstance(b, N)
    rw = 0 if op in CMP else w
    unary = (not an or a.var is not None) and (not bn or b.var is not None) and \
            (not (an and bn) or a.var == b.var) and w <= 64
    if op in ('Shl', 'Shr', 'ShlUnchecked', 'ShrUnchecked') and bn and an and a.w != b.w: unary = unary and True
    if not unary:
        if op.endswith('WithOverflow'):
            return (N(w, None, None, op[:3], (a, b, w, s)), N(0, None, None, 'Ovf' + op[:3], (a, b, w, s)))
        return N(rw, None, None, op, (a, b, w, s))
    var = a.var if an else b.var
    key = (op, a.tid if an else ('c', a), b.tid if bn else ('c', b), w, s)
    r = OPCACHE.get(key)
    if r is None:
        aw = a.w if an else w; bw = b.w if bn else w
        la = _tolist(TAB_ARR[a.tid], aw) if an else _tolist(a, w)
        lb = _tolist(TAB_ARR[b.tid], bw) if bn else _tolist(b, w)
        t = _table_binop(op, la, lb, w, s)
        r = (intern(t[0]), intern(t[1])) if isinstance(t, tuple) else intern(t)
        OPCACHE[key] = r
    if isinstance(r, tuple):
        return (N(w, var, r[0], op[:3], (a, b, w, s)), N(0, var, r[1], 'Ovf' + op[:3], (a, b, w, s)))
    return N(rw, var, r, op, (a, b, w, s))


def boolop(op, a, b=None):
    """op in And, Or, Xor, Not, Eq, Ne over bool nodes / python bools"""
    if op == 'Not':
        if a.var is not None:
            key = ('bnot', a.tid); r = OPCACHE.get(key)
            if r is None: r = intern(~TAB_ARR[a.tid].astype(bool)); OPCACHE[key] = r
            return N(0, a.var, r, 'BNot', (a,))
        return N(0, None, None, 'BNot', (a,))
    an, bn = isinstance(a, N), isinstance(b, N)
    if not an and not bn: raise AssertionError
    # constant folding
    if not an: a, b, an, bn = b, a, True, False
    if not bn:
        if op == 'And': return a if b else False
        if op == 'Or': return True if b else a
        if op in ('Xor', 'Ne'): return boolop('Not', a) if b else a
        if op == 'Eq': return a if b else boolop('Not', a)
    if a.var is not None and a.var == b.var:
        key = ('b' + op, a.tid, b.tid); r = OPCACHE.get(key)
        if r is None:
            x, y = TAB_ARR[a.tid].astype(bool), TAB_ARR[b.tid].astype(bool)
            r = intern({'And': x & y, 'Or': x | y, 'Xor': x ^ y, 'Ne': x ^ y, 'Eq': ~(x ^ y)}[op]); OPCACHE[key] = r
        return N(0, a.var, r, 'B' + op, (a, b))
    return N(0, None, None, 'B' + op, (a, b))


def unop(op, a, w, s):
    """Not / Neg on int node"""
    if a.var is not None and w <= 64:
        key = (op, a.tid, w); r = OPCACHE.get(key)
        if r is None:
            la = _tolist(TAB_ARR[a.tid], w); m = _wm(w)
            r = intern(np.array([(~v if op == 'Not' else -v) & m for v in la], dtype=np.uint64)); OPCACHE[key] = r
        return N(w, a.var, r, op, (a, w))
    return N(w, None, None, op, (a, w))


def cast_int(a, fw, fs, tw):
    """integer cast of node a (width fw, signedness fs) to width tw"""
    if a.var is not None and tw <= 64 and fw <= 64:
        key = ('cast', a.tid, fw, fs, tw); r = OPCACHE.get(key)
        if r is None:
            la = _tolist(TAB_ARR[a.tid], fw)
            r = intern(np.array([(_sx(v, fw) if fs else v) & _wm(tw) for v in la], dtype=np.uint64)); OPCACHE[key] = r
        return N(tw, a.var, r, 'Cast', (a, fw, fs, tw))
    return N(tw, None, None, 'Cast', (a, fw, fs, tw))


def bool_to_int(a, tw):
    if a.var is not None and tw <= 64:
        key = ('b2i', a.tid, tw); r = OPCACHE.get(key)
        if r is None: r = intern(TAB_ARR[a.tid].astype(np.uint64)); OPCACHE[key] = r
        return N(tw, a.var, r, 'B2I', (a, tw))
    return N(tw, None, None, 'B2I', (a, tw))


def table_lookup(data, idx, elem_bool=True):
    """data: tuple of ints (constant table), idx: int node. returns bool node (elem_bool) or u8 node"""
    if idx.var is not None:
        key = ('tab', data, idx.tid, elem_bool); r = OPCACHE.get(key)
        if r is None:
            ia = _tolist(TAB_ARR[idx.tid], idx.w)
            if any(i >= len(data) for i in ia): r = -1
            else:
                vals = [data[i] for i in ia]
                r = intern(np.array(vals, dtype=bool) if elem_bool else np.array(vals, dtype=np.uint64))
            OPCACHE[key] = r
        if r != -1:
            return N(0 if elem_bool else 8, idx.var, r, 'Tab', (data, idx, elem_bool))
    return N(0 if elem_bool else 8, None, None, 'Tab', (data, idx, elem_bool))


def concat_bytes(bs):
    """little-endian concat of 8-bit values (N or int) -> node of width 8*len"""
    return N(8 * len(bs), None, None, 'Concat', tuple(bs))


def extract_byte(a, i):
    """byte i (little endian) of node a"""
    if a.op == 'Concat':
        return a.args[i]
    if a.var is not None and a.w <= 64:
        key = ('xb', a.tid, i); r = OPCACHE.get(key)
        if r is None:
            la = _tolist(TAB_ARR[a.tid], a.w)
            r = intern(np.array([(v >> (8 * i)) & 255 for v in la], dtype=np.uint64)); OPCACHE[key] = r
        return N(8, a.var, r, 'XByte', (a, i))
    return N(8, None, None, 'XByte', (a, i))


def ite(c, a, b, w):
    return N(w, None, None, 'Ite', (c, a, b, w))


def raw(w, zfun, args, name):
    """opaque multi-var node whose z3 translation is zfun(*[zexpr of args])"""
    return N(w, None, None, 'Raw', (zfun, tuple(args), name))


# ------------------------------------------------------------------ z3 translation
ZVARS = {}


def zvar(var):
    v = ZVARS.get(var)
    if v is None: v = z3.BitVec('v%d' % var, 8); ZVARS[var] = v
    return v


def zval(x, w):
    if isinstance(x, N): return zexpr(x)
    if w == 0: return z3.BoolVal(bool(x))
    return z3.BitVecVal(x, w)


def ranges_of_mask(m):
    out = []; i = 0
    while i < 256:
        if (m >> i) & 1:
            j = i
            while j + 1 < 256 and (m >> (j + 1)) & 1: j += 1
            out.append((i, j)); i = j + 1
        else: i += 1
    return out


_ZMASK = {}


def zmask(zv, m):
    """z3 constraint: 8-bit term zv is in the set given by 256-bit mask m"""
    key = (zv.get_id(), m)
    r = _ZMASK.get(key)
    if r is None:
        r = _zmask(zv, m)
        _ZMASK[key] = (r, zv)     # keep zv alive so that its id is not reused
        return r
    return r[0]


def _zmask(zv, m):
    if m == MASK256: return z3.BoolVal(True)
    rs = ranges_of_mask(m)
    nrs = ranges_of_mask(~m & MASK256)
    if len(nrs) < len(rs):
        return z3.And([z3.Or(z3.ULT(zv, a), z3.UGT(zv, b)) if a != b else zv != a for a, b in nrs])
    return z3.Or([z3.And(z3.UGE(zv, a), z3.ULE(zv, b)) if a != b else zv == a for a, b in rs]) if rs else z3.BoolVal(False)


def zexpr(n):
    if n._z is not None: return n._z
    op = n.op; A = n.args
    if op == 'var': r = zvar(A[0])
    elif op in CMP:
        a, b, w, s = A; za, zb = zval(a, w), zval(b, w)
        r = {'Eq': lambda: za == zb, 'Ne': lambda: za != zb,
             'Lt': lambda: (za < zb) if s else z3.ULT(za, zb), 'Le': lambda: (za <= zb) if s else z3.ULE(za, zb),
             'Gt': lambda: (za > zb) if s else z3.UGT(za, zb), 'Ge': lambda: (za >= zb) if s else z3.UGE(za, zb)}[op]()
    elif op in ('Add', 'Sub', 'Mul', 'AddUnchecked', 'SubUnchecked', 'MulUnchecked', 'BitAnd', 'BitOr', 'BitXor',
                'Shl', 'Shr', 'ShlUnchecked', 'ShrUnchecked'):
        a, b, w, s = A; za = zval(a, w)
        if op.startswith('Sh'):
            bw = b.w if isinstance(b, N) else w
            zb = zval(b, bw)
            if bw < w: zb = z3.ZeroExt(w - bw, zb)
            elif bw > w: zb = z3.Extract(w - 1, 0, zb)
            zb = z3.URem(zb, z3.BitVecVal(w, w))
            r = (za << zb) if op.startswith('Shl') else ((za >> zb) if s else z3.LShR(za, zb))
        else:
            zb = zval(b, w)
            r = {'Add': lambda: za + zb, 'Sub': lambda: za - zb, 'Mul': lambda: za * zb, 'BitAnd': lambda: za & zb,
                 'BitOr': lambda: za | zb, 'BitXor': lambda: za ^ zb}[op.replace('Unchecked', '')]()
    elif op in ('Div', 'Rem'):
        a, b, w, s = A; za, zb = zval(a, w), zval(b, w)
        if op == 'Div': r = (za / zb) if s else z3.UDiv(za, zb)
        else: r = z3.SRem(za, zb) if s else z3.URem(za, zb)
    elif op in ('OvfAdd', 'OvfSub', 'OvfMul'):
        # overflow predicates written with standard bit-vector operators only (portable to cvc5)
        a, b, w, s = A; za, zb = zval(a, w), zval(b, w)
        if op == 'OvfAdd':
            if s:
                x = z3.SignExt(1, za) + z3.SignExt(1, zb); r = z3.Extract(w, w, x) != z3.Extract(w - 1, w - 1, x)
            else:
                r = z3.Extract(w, w, z3.ZeroExt(1, za) + z3.ZeroExt(1, zb)) == z3.BitVecVal(1, 1)
        elif op == 'OvfSub':
            if s:
                x = z3.SignExt(1, za) - z3.SignExt(1, zb); r = z3.Extract(w, w, x) != z3.Extract(w - 1, w - 1, x)
            else:
                r = z3.ULT(za, zb)
        else:
            if s:
                x = z3.SignExt(w, za) * z3.SignExt(w, zb); r = x != z3.SignExt(w, z3.Extract(w - 1, 0, x))
            else:
                r = z3.Extract(2 * w - 1, w, z3.ZeroExt(w, za) * z3.ZeroExt(w, zb)) != z3.BitVecVal(0, w)
    elif op == 'BNot': r = z3.Not(zexpr(A[0]))
    elif op in ('BAnd', 'BOr', 'BXor', 'BNe', 'BEq'):
        za, zb = zexpr(A[0]), zexpr(A[1])
        r = {'BAnd': lambda: z3.And(za, zb), 'BOr': lambda: z3.Or(za, zb), 'BXor': lambda: z3.Xor(za, zb),
             'BNe': lambda: z3.Xor(za, zb), 'BEq': lambda: za == zb}[op]()
    elif op == 'Not': r = ~zexpr(A[0])
    elif op == 'Neg': r = -zexpr(A[0])
    elif op == 'Cast':
        a, fw, fs, tw = A; za = zexpr(a)
        r = (z3.SignExt(tw - fw, za) if fs else z3.ZeroExt(tw - fw, za)) if tw > fw else (z3.Extract(tw - 1, 0, za) if tw < fw else za)
    elif op == 'B2I':
        r = z3.If(zexpr(A[0]), z3.BitVecVal(1, A[1]), z3.BitVecVal(0, A[1]))
    elif op == 'Tab':
        data, idx, eb = A; zi = zexpr(idx)
        if eb:
            runs = []; i = 0; nn = len(data)
            while i < nn:
                if data[i]:
                    j = i
                    while j + 1 < nn and data[j + 1]: j += 1
                    runs.append((i, j)); i = j + 1
                else: i += 1
            r = z3.Or([z3.And(z3.UGE(zi, a), z3.ULE(zi, b)) if a != b else zi == a for a, b in runs]) if runs else z3.BoolVal(False)
        else:
            r = z3.BitVecVal(0, 8)
            for k in reversed(range(len(data))): r = z3.If(zi == k, z3.BitVecVal(data[k], 8), r)
    elif op == 'Concat':
        r = z3.Concat(*[zval(b, 8) for b in reversed(A)]) if len(A) > 1 else zval(A[0], 8)
    elif op == 'XByte':
        r = z3.Extract(8 * A[1] + 7, 8 * A[1], zexpr(A[0]))
    elif op == 'Ite':
        c, a, b, w = A; r = z3.If(zexpr(c), zval(a, w), zval(b, w))
    elif op == 'Raw':
        zfun, args, _ = A; r = zfun(*[zexpr(a) if isinstance(a, N) else a for a in args])
    else:
        raise AssertionError('zexpr: ' + op)
    n._z = r
    return r


def eval_node(n, env, memo=None):
    """concrete evaluation of node under env: var -> int (used to validate witnesses); via z3 substitution-free walk"""
    # evaluate with z3's simplifier on a substituted expression (small, exact)
    e = zexpr(n)
    subs = [(zvar(v), z3.BitVecVal(env[v], 8)) for v in support(n)]
    r = z3.simplify(z3.substitute(e, *subs))
    if z3.is_bool(r): return z3.is_true(r)
    return r.as_long()
