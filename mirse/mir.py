"""MIR text (`-Zunpretty=mir`) -> function table.  Pure parsing, no semantics."""
import re


class Func:
    __slots__ = ('name', 'sig', 'blocks', 'locals', 'nargs', 'nlocals', 'compiled', 'ret_ty')

    def __init__(self, name, sig):
        self.name = name; self.sig = sig; self.blocks = {}; self.locals = {}; self.nargs = 0
        self.nlocals = 0; self.compiled = None; self.ret_ty = ''


def split_top(s, sep=','):
    out = []; depth = 0; cur = []; i = 0; instr = False; n = len(s)
    while i < n:
        c = s[i]
        if instr:
            cur.append(c)
            if c == '\\': cur.append(s[i + 1]); i += 1
            elif c == '"': instr = False
        elif c == '"': instr = True; cur.append(c)
        elif c in '([{': depth += 1; cur.append(c)
        elif c == '<' and not (s[i - 1:i] == ' ' or s[i + 1:i + 2] in ('=', ' ', '<')): depth += 1; cur.append(c)
        elif c in ')]}': depth -= 1; cur.append(c)
        elif c == '>' and s[i - 1:i] not in ('-', '=', ' ') and depth > 0: depth -= 1; cur.append(c)
        elif c == sep and depth == 0:
            out.append(''.join(cur).strip()); cur = []
        else: cur.append(c)
        i += 1
    t = ''.join(cur).strip()
    if t: out.append(t)
    return out


class Mir:
    def __init__(self):
        self.funcs = {}; self.consts = {}; self.allocs = {}; self.statics = {}
        self.ctfe = {}


def parse_mir(text):
    M = Mir()
    lines = text.split('\n'); i = 0; n = len(lines); ctfe_next = False
    while i < n:
        ln = lines[i]
        if ln.startswith('// MIR FOR CTFE'): ctfe_next = True; i += 1; continue
        m = re.match(r'^fn (.*?)\((.*)\) -> (.*) \{$', ln)
        m2 = re.match(r'^(?:const|static) (?:mut )?((?:<impl at [^>]*>)?.*?): (.*?) = (.*)$', ln)
        m3 = re.match(r'^(alloc\w+) \((?:static: (\w+), )?size: (\d+), align: \d+\) \{', ln)
        if m or (m2 and m2.group(3) == '{'):
            if m:
                f = Func(m.group(1), ln); args = split_top(m.group(2)); f.nargs = len(args); f.ret_ty = m.group(3)
                for a in args:
                    am = re.match(r'(_\d+): (.*)', a)
                    if am: f.locals[am.group(1)] = am.group(2)
            else:
                f = Func(m2.group(1), ln); f.nargs = 0; f.ret_ty = m2.group(2)
            i += 1; cur = None
            while lines[i] != '}':
                s = lines[i].strip()
                lm = re.match(r'let (?:mut )?(_\d+): (.*);$', s)
                bm = re.match(r'(bb\d+)(?: \(cleanup\))?: \{$', s)
                if lm: f.locals[lm.group(1)] = lm.group(2)
                elif bm: cur = []; f.blocks[bm.group(1)] = cur
                elif cur is not None and s and s != '}' and not s.startswith(('debug ', 'scope ', '//')):
                    cur.append(s)
                i += 1
            f.nlocals = 1 + max([int(k[1:]) for k in f.locals] + [0])
            if m:
                if ctfe_next: M.ctfe.setdefault(f.name, f)
                else: M.funcs.setdefault(f.name, f)
            else: M.consts[f.name] = f
            ctfe_next = False
        elif m2:
            M.consts[m2.group(1)] = m2.group(3).rstrip(';')
        elif m3:
            data = []; i += 1
            if ln.rstrip().endswith('{}'):
                M.allocs[m3.group(1)] = data; continue
            while not lines[i].startswith('}'):
                parts = lines[i].split('│')
                if len(parts) >= 3: data += parts[1].split()
                elif len(parts) == 2: data += parts[0].split()
                i += 1
            M.allocs[m3.group(1)] = data
            if m3.group(2): M.statics[m3.group(2)] = data
        i += 1
    return M


DISCRIMINANTS = {}      # enum name -> {variant: declared discriminant value (None = not evaluable)}


def parse_enums(src_texts):
    """enum name -> [variant names] from rust source texts (declaration order = discriminant order)"""
    enums = {}
    for text in src_texts:
        # strip line comments
        t = re.sub(r'//[^\n]*', '', text)
        for m in re.finditer(r'\benum\s+(\w+)\s*(?:<[^>{]*>)?\s*\{', t):
            j = m.end(); depth = 1; body = []
            while depth and j < len(t):
                c = t[j]
                if c == '{': depth += 1
                elif c == '}': depth -= 1
                if depth: body.append(c)
                j += 1
            vs = []; nxt = 0; disc = {}
            for part in split_top(''.join(body)):
                part = re.sub(r'#\[[^\]]*\]', '', part).strip()
                vm = re.match(r'(\w+)', part)
                if not vm: continue
                dm = re.search(r'=\s*(-?(?:0x[0-9a-fA-F_]+|\d[\d_]*))\s*(?:[ui]\d+|[ui]size)?\s*$', part)
                if dm: nxt = int(dm.group(1).replace('_', ''), 0)
                elif '=' in part.split('(')[0].split('{')[0]: nxt = None          # discriminant given by an expression we do not evaluate
                vs.append(vm.group(1)); disc[vm.group(1)] = nxt
                if nxt is not None: nxt += 1
            if m.group(1) not in enums:
                enums[m.group(1)] = vs
                DISCRIMINANTS[m.group(1)] = disc
    return enums


def parse_structs(src_texts):
    """struct name -> [field names] (declaration order)"""
    out = {}
    for text in src_texts:
        t = re.sub(r'//[^\n]*', '', text)
        for m in re.finditer(r'\bstruct\s+(\w+)\s*(?:<[^>{]*>)?\s*\{', t):
            j = m.end(); depth = 1; body = []
            while depth and j < len(t):
                c = t[j]
                if c == '{': depth += 1
                elif c == '}': depth -= 1
                if depth: body.append(c)
                j += 1
            fs = []
            for part in split_top(''.join(body)):
                part = re.sub(r'#\[[^\]]*\]', '', part).strip()
                fm = re.match(r'(?:pub(?:\([^)]*\))?\s+)?(\w+)\s*:', part)
                if fm: fs.append(fm.group(1))
            out.setdefault(m.group(1), fs)
    return out
