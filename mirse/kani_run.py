"""Engine K: run Kani proof harnesses (/verif/kani) against /repo's current tree; counterexamples go through the
same native replay gate as engine M's."""
import os, re, shutil, subprocess, tempfile, time, json
from . import build

KANI_DIR = os.path.join(build.VERIF, 'kani')


class KaniRun:
    def __init__(self, harnesses, debug_assertions=True, tag='dbg', timeout=1500):
        self.harnesses = harnesses; self.dbg = debug_assertions; self.tag = tag; self.timeout = timeout
        self.sd = tempfile.mkdtemp(prefix='httparse-verif-kani.', dir=build.SCRATCH_ROOT)
        work = os.path.join(self.sd, 'kani'); shutil.copytree(KANI_DIR, work, ignore=shutil.ignore_patterns('target'))
        ct = open(os.path.join(work, 'Cargo.toml')).read().replace('"/repo"', '"%s"' % build.REPO).replace('../refmodel', os.path.join(build.VERIF, 'refmodel'))
        open(os.path.join(work, 'Cargo.toml'), 'w').write(ct)
        lock = os.path.join(build.REPO, 'Cargo.lock')
        env = build.base_env(); env['CARGO_CFG_HTTPARSE_DISABLE_SIMD'] = '1'
        if not self.dbg: env['CARGO_PROFILE_DEV_DEBUG_ASSERTIONS'] = 'false'
        cmd = ['cargo', 'kani', '--target-dir', os.path.join(self.sd, 't'), '-Z', 'concrete-playback', '--concrete-playback=print']
        for h in harnesses: cmd += ['--harness', h]
        self.log = os.path.join(self.sd, 'kani.log')
        self.t0 = time.time()
        pre = 'ulimit -v 25000000; '
        self.p = subprocess.Popen(['bash', '-c', pre + 'exec timeout %d ' % timeout + ' '.join(cmd)], cwd=work, env=env,
                                  stdout=open(self.log, 'w'), stderr=subprocess.STDOUT)

    def wait(self):
        rc = self.p.wait()
        self.wall = time.time() - self.t0
        text = open(self.log, errors='replace').read()
        res = parse_kani_log(text, self.harnesses)
        res['rc'] = rc; res['wall_s'] = round(self.wall, 1); res['profile'] = 'debug-assertions on' if self.dbg else 'debug-assertions off (release control flow; CBMC overflow checks stay on)'
        if rc == 124: res['error'] = 'timeout'
        shutil.rmtree(self.sd, ignore_errors=True)
        return res

    def kill(self):
        try: self.p.kill()
        except Exception: pass
        shutil.rmtree(self.sd, ignore_errors=True)


def parse_kani_log(text, harnesses):
    out = {'harnesses': {}}
    parts = re.split(r'Checking harness ', text)
    for part in parts[1:]:
        name = part.split('...')[0].strip().split('::')[-1]
        h = {'status': None, 'failed': [], 'checks': None, 'time_s': None}
        m = re.search(r'\*\* (\d+) of (\d+) failed', part)
        if m: h['checks'] = int(m.group(2)); h['nfailed'] = int(m.group(1))
        m = re.search(r'VERIFICATION:- (\w+)', part)
        if m: h['status'] = m.group(1)
        m = re.search(r'Verification Time: ([\d.]+)s', part)
        if m: h['time_s'] = float(m.group(1))
        for fm in re.finditer(r'Failed Checks: (.*)', part): h['failed'].append(fm.group(1).strip()[:200])
        if 'unwinding assertion' in ' '.join(h['failed']): h['unwind_insufficient'] = True
        # concrete playback: byte vectors in order of kani::any() calls
        vecs = re.findall(r'vec!\[([0-9, ]*)\]', part.split('Concrete playback')[-1]) if 'Concrete playback' in part else []
        if vecs: h['playback'] = [[int(x) for x in v.split(',') if x.strip()] for v in vecs]
        if 'Status: ERROR' in part or 'CBMC failed' in part: h['status'] = 'ERROR'
        out['harnesses'][name] = h
    for hn in harnesses:
        if hn not in out['harnesses']: out['harnesses'][hn] = {'status': 'MISSING', 'failed': []}
    if 'error: could not compile' in text or 'error[E' in text:
        out['compile_error'] = text[-1500:]
    return out


def playback_to_input(pb, nbuf):
    """[buf bytes (nbuf)], [len as 8 LE bytes], ... -> (bytes, extra ints)"""
    flat = [v for v in pb if len(v) > 0]
    buf = None; ints = []
    for v in flat:
        if buf is None and len(v) == nbuf: buf = bytes(v)
        elif len(v) == 8: ints.append(int.from_bytes(bytes(v), 'little'))
    return buf, ints
