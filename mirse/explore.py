"""Parallel stateless DFS over decision prefixes.  A job is (leaf function path, params); the leaf function
sets up the symbolic state on a freshly reset engine, runs the code and returns a picklable leaf record."""
import importlib, multiprocessing as mp, os, sys, time, traceback, random
import z3
from . import sym
from .engine import Panic, Unsupported, Infeasible, Inconclusive

NPROC = int(os.environ.get('VERIF_JOBS', '16'))
_ENGINES = {}


def get_engine(variants):
    from . import harness
    key = tuple(variants)
    E = _ENGINES.get(key)
    if E is None:
        E = harness.make_engine(list(variants)); _ENGINES[key] = E
    return E


def resolve(fn_path):
    mod, name = fn_path.rsplit('.', 1)
    return getattr(importlib.import_module(mod), name)


class Agg:
    """aggregated result of exploring a job (or part of it)"""
    def __init__(self):
        self.paths = 0; self.decisions = 0; self.z3 = 0; self.steps = 0; self.tab = 0
        self.count_sum = 0; self.count_unknown = 0
        self.outcomes = {}; self.violations = []; self.samples = []; self.errors = []
        self.obligations = 0; self.xchecked = 0; self.xcheck_bad = []
        self.incomplete = False; self.witnesses = {}; self.z3_s = 0.0
        self.extra = {}

    def merge(self, o):
        self.paths += o.paths; self.decisions += o.decisions; self.z3 += o.z3; self.steps += o.steps; self.tab += o.tab
        self.count_sum += o.count_sum; self.count_unknown += o.count_unknown
        for k, v in o.outcomes.items(): self.outcomes[k] = self.outcomes.get(k, 0) + v
        self.violations += o.violations[:max(0, 50 - len(self.violations))]
        self.samples += o.samples[:max(0, 12 - len(self.samples))]
        self.errors += o.errors[:max(0, 10 - len(self.errors))]
        self.obligations += o.obligations; self.xchecked += o.xchecked; self.xcheck_bad += o.xcheck_bad
        self.incomplete = self.incomplete or o.incomplete; self.z3_s += o.z3_s
        for k, v in o.witnesses.items(): self.witnesses.setdefault(k, v)
        for k, v in o.extra.items():
            if isinstance(v, (int, float)): self.extra[k] = self.extra.get(k, 0) + v
            elif isinstance(v, list): self.extra.setdefault(k, []); self.extra[k] += v[:max(0, (400 if k == 'validate' else (300 if k == 'smt2' else 20)) - len(self.extra[k]))]
            elif isinstance(v, dict):
                d = self.extra.setdefault(k, {})
                for kk, vv in v.items(): d[kk] = max(d.get(kk, vv), vv) if isinstance(vv, (int, float)) else vv


def xcheck_path(E):
    """independent z3 re-decision of this path's table-decided branches: the conjunction of the branch conditions
    (translated from the expression trees, not the tables) must be satisfiable, and every pruned side must be unsat
    under the conditions taken before it."""
    bad = []
    s = z3.Solver()
    conds = [sym.zexpr(c) for c in E.trace]
    # initial domains (flags are {0,1}, restricted bytes)
    init = [sym.zmask(sym.zvar(v), m) for v, m in getattr(E, 'init_dom', {}).items() if m != sym.MASK256]
    s.add(*init)
    s.push(); s.add(*conds)
    if s.check() != z3.sat: bad.append('path condition not satisfiable according to z3')
    s.pop()
    for tl, c in E.pruned:
        s.push(); s.add(*conds[:tl]); s.add(sym.zexpr(c))
        r = s.check()
        if r != z3.unsat: bad.append(f'branch pruned by the table domain is {r} according to z3: {c}')
        s.pop()
    return bad


def run_subtree(fn_path, params, prefix, max_paths, deadline, seed):
    """explore the subtree under decision prefix `prefix` (DFS), at most max_paths leaves; returns (Agg, remaining prefixes)"""
    fn = resolve(fn_path)
    E = get_engine(params['variants'])
    agg = Agg(); work = [list(prefix)]
    xevery = params.get('xcheck_every', 0)
    from .props import common as _common
    _common.XSMT['every'] = params.get('xsmt_every', 0); _common.XSMT['out'] = []
    rnd = random.Random(seed * 1000003 + hash(tuple(prefix)) % 1000003)
    while work:
        if agg.paths >= max_paths or time.time() > deadline: break
        dec = work.pop()
        E.reset(dec)
        rec = None
        try:
            rec = fn(E, params)
        except Infeasible:
            work.extend(E.pending); continue
        except Inconclusive as e:
            agg.errors.append('inconclusive: ' + str(e)); agg.incomplete = True
        except Unsupported as e:
            agg.errors.append('unsupported: ' + str(e)); agg.incomplete = True
        except Panic as e:
            agg.errors.append('engine-level panic outside the harness: ' + str(e)); agg.incomplete = True
        except RecursionError:
            agg.errors.append('python recursion limit'); agg.incomplete = True
        except Exception as e:
            agg.errors.append('internal error: ' + ''.join(traceback.format_exception(type(e), e, e.__traceback__))[-1500:]); agg.incomplete = True
        work.extend(E.pending)
        agg.paths += 1; agg.decisions += E.ndec; agg.z3 += E.nz3; agg.steps += E.steps; agg.tab += E.ntab
        if rec is None: continue
        mc = E.model_count()
        if mc is None: agg.count_unknown += 1
        else: agg.count_sum += mc
        oc = rec.get('outcome', '?'); agg.outcomes[oc] = agg.outcomes.get(oc, 0) + 1
        agg.obligations += rec.get('obligations', 0)
        for v in rec.get('violations', []):
            if len(agg.violations) < 50: agg.violations.append(v)
        if 'sample' in rec and len(agg.samples) < 12 and (agg.paths % 7 == 1 or len(agg.samples) < 3): agg.samples.append(rec['sample'])
        for k, v in rec.get('witnesses', {}).items(): agg.witnesses.setdefault(k, v)
        for k, v in rec.get('extra', {}).items():
            if isinstance(v, (int, float)): agg.extra[k] = agg.extra.get(k, 0) + v
            elif isinstance(v, list): agg.extra.setdefault(k, []); agg.extra[k] += v[:max(0, (400 if k == 'validate' else (300 if k == 'smt2' else 20)) - len(agg.extra[k]))]
            elif isinstance(v, dict):
                d = agg.extra.setdefault(k, {})
                for kk, vv in v.items(): d[kk] = max(d.get(kk, vv), vv) if isinstance(vv, (int, float)) else vv
        if xevery and (xevery == 1 or rnd.randrange(xevery) == 0):
            t0 = time.time()
            bad = xcheck_path(E); agg.xchecked += 1; agg.z3_s += time.time() - t0
            for b in bad: agg.xcheck_bad.append(b + ' | ' + str(rec.get('sample', ''))[:200])
    if _common.XSMT['out']: agg.extra['smt2'] = list(_common.XSMT['out']); _common.XSMT['out'] = []
    return agg, work


def _worker(args):
    fn_path, params, prefix, max_paths, deadline, seed = args
    try:
        return run_subtree(fn_path, params, prefix, max_paths, deadline, seed)
    except Exception as e:
        a = Agg(); a.errors.append('worker crashed: ' + ''.join(traceback.format_exception(type(e), e, e.__traceback__))[-2000:]); a.incomplete = True
        return a, []


_POOL = None


def pool():
    global _POOL
    if _POOL is None:
        ctx = mp.get_context('fork')
        _POOL = ctx.Pool(NPROC)
    return _POOL


def close_pool():
    global _POOL
    if _POOL is not None:
        _POOL.terminate(); _POOL.join(); _POOL = None


def explore(fn_path, params, budget_s=300, seed=0, chunk=150, serial=False):
    """explore all paths of a job. returns Agg (agg.incomplete set if the budget ran out or anything was inconclusive)"""
    deadline = time.time() + budget_s
    total = Agg()
    if serial or NPROC <= 1:
        a, rest = run_subtree(fn_path, params, [], 10 ** 9, deadline, seed)
        total.merge(a)
        if rest: total.incomplete = True; total.errors.append(f'time budget exhausted with {len(rest)} unexplored prefixes')
        return total
    # warm up in the parent so that forked workers share parsed MIR
    get_engine(params['variants'])
    a, queue = run_subtree(fn_path, params, [], 8, deadline, seed)
    total.merge(a)
    if not queue: return total
    p = pool()
    inflight = []
    import collections
    queue = collections.deque(queue)
    while queue or inflight:
        while queue and len(inflight) < NPROC * 2:
            pre = queue.pop()
            inflight.append(p.apply_async(_worker, ((fn_path, params, pre, chunk, deadline, seed),)))
        done = [r for r in inflight if r.ready()]
        if not done:
            time.sleep(0.01)
            if time.time() > deadline + 120:
                total.incomplete = True; total.errors.append('workers did not return after the deadline'); break
            continue
        for r in done:
            inflight.remove(r)
            a, rest = r.get()
            total.merge(a)
            if time.time() > deadline:
                if rest: total.incomplete = True
            else:
                queue.extend(rest)
        if time.time() > deadline and queue:
            total.incomplete = True
            total.errors.append(f'time budget exhausted with >= {len(queue)} unexplored prefixes')
            queue.clear()
    return total


def _worker_whole(args):
    fn_path, params, budget_s, seed = args
    try:
        a, rest = run_subtree(fn_path, params, [], 10 ** 9, time.time() + budget_s, seed)
        if rest:
            a.incomplete = True; a.errors.append(f'time budget exhausted with {len(rest)} unexplored prefixes')
        return a
    except Exception as e:
        a = Agg(); a.errors.append('worker crashed: ' + ''.join(traceback.format_exception(type(e), e, e.__traceback__))[-2000:]); a.incomplete = True
        return a


def explore_many(items, seed=0):
    """run many SMALL jobs concurrently, one whole job per worker task. items: list of (fn_path, params, budget_s). returns list of (Agg, wall_s)"""
    p = pool()
    t0 = time.time()
    rs = [(p.apply_async(_worker_whole, ((fn, params, budget, seed),)), time.time()) for fn, params, budget in items]
    out = []
    for r, t in rs:
        try: a = r.get(timeout=max(b for _, _, b in items) + 300)
        except Exception as e:
            a = Agg(); a.incomplete = True; a.errors.append('worker did not return: ' + repr(e))
        out.append((a, time.time() - t0))
    return out
