"""Check driver for engine-M based properties: runs the job list of a property module, passes every solver
counterexample through the native replay gate, validates sampled path predictions natively, enforces the
vacuity guards, writes the evidence file and decides the exit code (0 held / 1 VIOLATION / 2 inconclusive)."""
import re
import hashlib, importlib, json, os, sys, time, traceback
from . import explore, native, build, models


VERIF = build.VERIF
OUT = os.environ.get('VERIF_OUT', VERIF)
TIER_CAP = {'quick': 300, 'thorough': 2700}


class Job:
    def __init__(self, name, fn, params, budget_s, bound, family=None, mandatory=True, groups=None, expect_violation=False, chunk=150):
        self.name = name; self.fn = fn; self.params = params; self.budget_s = budget_s; self.bound = bound
        self.family = family or name; self.mandatory = mandatory; self.groups = groups or params.get('groups', [])
        self.expect_violation = expect_violation; self.chunk = chunk


def load_known():
    p = os.environ.get('VERIF_KNOWN') or os.path.join(VERIF, 'known_findings.json')
    try: return json.load(open(p))
    except Exception: return {'findings': [], 'fixed': []}


def is_hex(b): return 48 <= b <= 57 or 65 <= b <= 70 or 97 <= b <= 102


PREDICATES = {
    # role-based matchers for known findings: (violation record) -> bool
    'chunk_no_digit_before_delimiter': lambda v: v.get('kind') == 'chunk' and (lambda d: len(d) > 0 and not is_hex(d[0]) and d[0] in (13, 59, 32, 9))(bytes.fromhex(v['buf'])),
}


def match_known(v, known):
    for f in known.get('findings', []):
        if f.get('property') != v['prop']: continue
        pred = PREDICATES.get(f.get('predicate'))
        if pred and pred(v): return f
    return None


def gate(v):
    """native replay gate; tries the alternative embeddings of a scanner-level counterexample if the first does not confirm"""
    st, det = gate1(v)
    if st in ('confirmed',) or not v.get('alt_bufs'): return st, det
    for alt in v['alt_bufs']:
        v2 = dict(v); v2['buf'] = alt; v2.pop('alt_bufs', None)
        st2, det2 = gate1(v2)
        if st2 == 'confirmed':
            v['buf'] = alt; det2['notes'].append('confirmed on an alternative embedding of the scanner input')
            return st2, det2
    return st, det


def gate1(v):
    """native replay gate for one solver counterexample. returns ('confirmed'|'unconfirmable'|'mismatch', details)"""
    if v.get('rel'): return native.rel_gate(v)
    kind, api = v['kind'], v['api']
    entry = native_entry(kind, api)
    data = bytes.fromhex(v['buf'])
    results = {}
    pred = v.get('predicted')
    confirmed = False; encoding_ok = True; notes = []
    dbg_variant = 'dbg' in v.get('variant', '')
    profiles = [native.profile_for(v['variant'], release=False), native.profile_for(v['variant'], release=True)]
    if pred is not None and pred.get('status') == 'PANIC' and 'overflow' in str(pred.get('panic', '')):
        # an arithmetic overflow that release builds wrap silently: confirm on the release control flow with overflow checks compiled in
        profiles.append('release-swar-ovf')
    # a counterexample may depend on the process environment (std builds): "[env NAME]" in the failure text names the variable the
    # engine's nondeterministic stub assumed to be set; the replay process is then started with it (a few plausible values)
    envs = [None]
    m_env = re.search(r'\[env ([A-Za-z_][A-Za-z0-9_]*)\]', v.get('msg', '') + ' ' + str((pred or {}).get('panic', '')))
    if m_env: envs = [{m_env.group(1): val} for val in ('1', '0', 'true')]
    for prof, env in [(p, e) for p in profiles for e in envs]:
        if confirmed and env is not None: break
        nat = native.run_native([(entry, v['flags'], v['cap'], v['buf'])], prof, env=env)[0]
        results[prof if env is None else f'{prof} {env}'] = nat
        viol = []
        for g in v.get('groups', []):
            viol += native.native_eval(g, kind, api, v['flags'], v['cap'], data, nat)
        pm = native.pred_matches(pred, nat['impl'], kind)
        if pred is not None and pred.get('status') == 'PANIC':
            # a predicted panic reproduces as a native panic in the profile that has the check; UB may stay silent
            if nat['impl'].get('status') in ('PANIC', 'CRASH'): confirmed = True; notes.append(f'{prof}: native run panics')
            elif viol: confirmed = True; notes.append(f'{prof}: native run violates: {viol[:2]}')
            else: notes.append(f'{prof}: native run returns {nat["impl"].get("status")} (predicted failure: {pred.get("panic")})')
            continue
        if viol and (pm or pm is None):
            confirmed = True; notes.append(f'{prof}: {viol[:3]}')
        elif viol and not pm:
            # the property is violated natively although the prediction differs in some detail: still a real violation
            confirmed = True; notes.append(f'{prof}: {viol[:3]} (engine prediction differs in detail: {native.norm_impl(pred, kind)} vs {native.norm_impl(nat["impl"], kind)})')
        elif not pm:
            release_vs_model = prof.startswith('release') and dbg_variant or (prof.startswith('dev') and not dbg_variant)
            if not release_vs_model:
                encoding_ok = False
            notes.append(f'{prof}: native {native.norm_impl(nat["impl"], kind)} vs predicted {native.norm_impl(pred, kind)}')
    if confirmed: return 'confirmed', {'native': results, 'notes': notes}
    if pred is not None and pred.get('status') == 'PANIC': return ('unconfirmable' if ub_class(v) else 'mismatch'), {'native': results, 'notes': notes}
    return ('mismatch' if not encoding_ok else 'unconfirmed'), {'native': results, 'notes': notes}


UB_MARKERS = ('oob:', 'uninit:', 'ptrcmp:', 'align:', 'out-of-bounds', 'out-of-allocation', 'past the end of', 'leaves the allocation', 'uninitialized', 'uninitialised')


def ub_class(v):
    """standard-level undefined behaviour that no native run reliably shows (reported separately, as the only unconfirmed kind)"""
    m = v.get('msg', '') + ' ' + str((v.get('predicted') or {}).get('panic', ''))
    return any(k in m for k in UB_MARKERS)


def native_entry(kind, api):
    if kind in ('chunk', 'headers'): return kind
    return {'parse': kind, 'cfg': kind + '_cfg', 'uninit': kind + '_uninit', 'cfg_uninit': kind + '_cfg_uninit'}[api]


def write_replay(pid, v, status, details):
    d = os.path.join(OUT, 'replays'); os.makedirs(d, exist_ok=True)
    h = hashlib.sha256((v['prop'] + v['buf'] + str(v['flags']) + v['kind'] + v['api'] + str(v['cap']) + v['msg'][:40]).encode()).hexdigest()[:12]
    path = os.path.join(d, f'{pid}-{h}.json')
    rec = dict(v); rec['gate'] = status; rec['gate_details'] = details
    json.dump(rec, open(path, 'w'), indent=1, default=str)
    return path


def validate_samples(samples):
    """native validation of sampled leaf predictions. returns (n_validated, mismatches)"""
    by_prof = {}
    for s in samples:
        prof = native.profile_for(s['variant'], release=False)
        by_prof.setdefault(prof, []).append(s)
    n = 0; bad = []
    for prof, ss in by_prof.items():
        res = native.run_native([(native_entry(s['kind'], s['api']), s['flags'], s['cap'], s['buf']) for s in ss], prof)
        for s, nat in zip(ss, res):
            if s['pred'].get('status') == 'PANIC': continue
            n += 1
            if not native.pred_matches(s['pred'], nat['impl'], s['kind']):
                bad.append({'input': s, 'native': nat['impl']})
    return n, bad


def cvc5_recheck(queries):
    """each query is an SMT-LIB2 script z3 answered unsat; cvc5 must agree. one incremental process, push/pop per query"""
    if not queries: return {'queries': 0}
    import subprocess, tempfile, re
    body = ['(set-logic ALL)']
    for q in queries:
        q = re.sub(r'\(set-info[^\n]*\n', '', q); q = q.replace('(check-sat)', '')
        q = re.sub(r'\(set-logic[^)]*\)', '', q)
        body.append('(push 1)'); body.append(q); body.append('(check-sat)'); body.append('(pop 1)')
    t0 = time.time()
    with tempfile.NamedTemporaryFile('w', suffix='.smt2', delete=False, dir=build.SCRATCH_ROOT) as f:
        f.write('\n'.join(body)); path = f.name
    try:
        p = subprocess.run(['cvc5', '--incremental', '--lang', 'smt2', path], stdout=subprocess.PIPE, stderr=subprocess.PIPE, timeout=900)
        out = p.stdout.decode().split()
        errs = p.stderr.decode()
    except Exception as e:
        out = []; errs = repr(e)
    finally:
        os.unlink(path)
    res = {'queries': len(queries), 'unsat': sum(1 for x in out if x == 'unsat'), 'wall_s': round(time.time() - t0, 1)}
    bad = len(queries) - res['unsat']
    if bad or '(error' in errs or 'rror' in errs[:200]:
        res['disagree'] = max(bad, 1); res['first'] = (errs or ' '.join(out))[:300]
    return res


def run_property(pid, tier, seed, module_name=None, post=None):
    t0 = time.time()
    mod = importlib.import_module(module_name or f'mirse.props.{pid.lower()}')
    jobs = mod.jobs(tier, seed)
    # breadth-first deepening across families: every family's shallow bounds run before anybody's deep ones, mandatory jobs first,
    # so that the tier's time cap only ever cuts the deepest levels
    fam_idx = {}; order = []
    for j in jobs:
        k = fam_idx.get(j.family, 0); fam_idx[j.family] = k + 1; order.append(k)
    jobs = [j for _, _, j in sorted(zip([(0 if j.mandatory else 1, k) for j, k in zip(jobs, order)], range(len(jobs)), jobs), key=lambda t: (t[0], t[1]))]
    if os.environ.get('VERIF_ONLY_JOBS'):      # development aid: restrict a run to the jobs whose name contains the given substring
        jobs = [j for j in jobs if os.environ['VERIF_ONLY_JOBS'] in j.name]
    cap_s = TIER_CAP[tier] * float(os.environ.get('VERIF_TIME_SCALE', '1'))
    known = load_known()
    total = explore.Agg(); job_reports = []; failed_families = set(); inconclusive = []
    all_viol = []; canary_ok = {}; precomputed = {}; fam_done = {}
    funcs = set()
    for job in jobs:
        elapsed = time.time() - t0
        if job.family in failed_families:
            job_reports.append({'job': job.name, 'bound': job.bound, 'status': 'skipped (shallower bound of this family did not complete)'}); continue
        remaining = cap_s - elapsed
        if remaining < 5:
            job_reports.append({'job': job.name, 'bound': job.bound, 'status': 'skipped (tier time cap reached)'})
            if job.mandatory and not fam_done.get(job.family): inconclusive.append(f'mandatory job {job.name} not run: time cap (no bound of family {job.family} completed)')
            continue
        budget = min(job.budget_s, remaining)
        job.params.setdefault('xsmt_every', 211 if tier == 'quick' else 53)
        if tier == 'thorough' and job.params.get('xcheck_every'): job.params['xcheck_every'] = min(job.params['xcheck_every'], 10)
        tj = time.time()
        try:
            if id(job) in precomputed:
                agg = precomputed[id(job)]
            elif getattr(job, 'small', False):
                # batch this and the following small jobs: one whole job per worker
                idx = jobs.index(job); batch = []
                while idx < len(jobs) and getattr(jobs[idx], 'small', False) and len(batch) < 64:
                    batch.append(jobs[idx]); idx += 1
                res = explore.explore_many([(b.fn, b.params, min(b.budget_s, remaining)) for b in batch], seed=seed)
                for b, (a, w) in zip(batch, res): precomputed[id(b)] = a
                agg = precomputed[id(job)]
            else:
                agg = explore.explore(job.fn, job.params, budget_s=budget, seed=seed, chunk=job.chunk)
        except Exception as e:
            agg = explore.Agg(); agg.incomplete = True
            agg.errors.append('explore failed: ' + ''.join(traceback.format_exception(type(e), e, e.__traceback__))[-1500:])
        dt = time.time() - tj
        rep = {'job': job.name, 'bound': job.bound, 'paths': agg.paths, 'decisions': agg.decisions, 'z3_queries': agg.z3,
               'obligations': agg.obligations, 'wall_s': round(dt, 1), 'outcomes': agg.outcomes,
               'status': 'complete' if not agg.incomplete else 'INCOMPLETE'}
        if agg.count_unknown == 0 and agg.paths and not agg.incomplete and job.params.get('space'):
            rep['partition_certificate'] = 'ok' if agg.count_sum == job.params['space'] else f"MISMATCH: leaves cover {agg.count_sum} of {job.params['space']} inputs"
            if agg.count_sum != job.params['space']:
                inconclusive.append(f"{job.name}: path conditions do not partition the input space ({agg.count_sum} vs {job.params['space']})")
        if agg.errors: rep['errors'] = agg.errors[:3]
        if agg.xcheck_bad:
            inconclusive.append(f'{job.name}: table-domain decision disagrees with z3: {agg.xcheck_bad[0][:300]}')
        if agg.incomplete:
            failed_families.add(job.family)
            hard = [e for e in agg.errors if not e.startswith('time budget')]
            if hard or (job.mandatory and not fam_done.get(job.family)):
                inconclusive.append(f'{job.name}: ' + (agg.errors[0][:600] if agg.errors else 'incomplete'))
        else:
            fam_done[job.family] = fam_done.get(job.family, 0) + 1
        if job.expect_violation:
            ok = False
            for v in agg.violations[:5]:
                v['groups'] = job.groups
                st, det = gate(v)
                if st == 'confirmed': ok = True; break
            canary_ok[job.name] = ok
            rep['canary'] = 'refuted with a replayable witness (as required)' if ok else 'NOT refuted'
            if not ok: inconclusive.append(f'vacuity canary {job.name} was not refuted')
            agg.violations = []
        for v in agg.violations:
            v['groups'] = job.groups; v['job'] = job.name
        all_viol += agg.violations
        job_reports.append(rep)
        total.merge(agg)
    extra_cov = {}
    if post is not None:
        try:
            pv, pmsgs, extra_cov = post(total) if post.__code__.co_argcount else post()
            all_viol += pv; inconclusive += pmsgs
        except Exception as e:
            inconclusive.append('post stage failed: ' + ''.join(traceback.format_exception(type(e), e, e.__traceback__))[-800:])
    # ---- replay gate
    reported = []; known_lines = []; gate_fail = []
    seen = set()
    for v in all_viol:
        key = (v['prop'], v['buf'], v['flags'], v['kind'], v['api'], v['cap'])
        if key in seen: continue
        seen.add(key)
        if len(reported) >= 5: break
        st, det = gate(v)
        if st == 'unconfirmable' and not ub_class(v):
            # a counterexample that a native run SHOULD show (panic, wrong result, race) but did not: never reported as a violation
            st = 'unconfirmed'
        if st == 'confirmed' or st == 'unconfirmable':
            kf = match_known(v, known)
            if kf is not None:
                line = f"KNOWN-FINDING: property={v['prop']} {kf.get('what', '')}"
                if line not in known_lines: known_lines.append(line)
                continue
            path = write_replay(pid, v, st, det)
            reported.append((v, path, st, det))
        else:
            path = write_replay(pid, v, st, det)
            gate_fail.append((v, path, st, det))
    # ---- native validation of sampled predictions
    nval, badval = validate_samples(total.extra.get('validate', []))
    if badval:
        inconclusive.append(f"engine prediction differs from the native run on {len(badval)} sampled path(s), e.g. {json.dumps(badval[0], default=str)[:500]}")
    # ---- second solver: sampled verdict queries re-decided by cvc5 (thorough tier)
    cvc = cvc5_recheck(total.extra.get('smt2', []))
    if cvc.get('disagree'): inconclusive.append(f"cvc5 disagrees with z3 on {cvc['disagree']} verdict queries (or reported an error): {cvc.get('first', '')[:200]}")
    # ---- vacuity: required witnesses
    missing = [w for w in getattr(mod, 'REQUIRED_WITNESSES', []) if w not in total.witnesses]
    if missing and not total.incomplete:
        inconclusive.append(f'vacuity guard: outcome classes never reached: {missing}')
    wall = time.time() - t0
    fam_summary = {}
    for job, rep in [(j, r) for j in jobs for r in job_reports if r['job'] == j.name]:
        f = fam_summary.setdefault(job.family, {'jobs': 0, 'completed': 0, 'deepest_completed': None})
        f['jobs'] += 1
        if rep.get('status') == 'complete': f['completed'] += 1; f['deepest_completed'] = rep['bound']
    ev = {
        'property_id': pid, 'tier': tier, 'seed': seed, 'level': 'model_checking',
        'coverage': {
            'states': max(1, total.paths), 'transitions': max(1, total.decisions),
            'traces_validated_against_impl': nval,
            'samples': total.samples[:8] if total.samples else [{'note': 'no leaf sample'}],
            'obligations': total.obligations, 'discharged': total.obligations if not reported else max(0, total.obligations - len(reported)),
            'solver_queries': total.z3, 'table_decisions': total.tab, 'table_decisions_rechecked_by_z3_paths': total.xchecked,
            'mir_steps': total.steps, 'outcome_classes': total.outcomes, 'witnesses_seen': sorted(total.witnesses),
            'jobs': job_reports,
            'functions_encoded': getattr(mod, 'FUNCTIONS', 'all httparse MIR bodies reachable from the entry points of the listed scenarios (regenerated from /repo by cargo +nightly rustc -Zunpretty=mir) + refmodel MIR'),
            'bounds': getattr(mod, 'BOUNDS', {}).get(tier, ''), 'bounds_completed_per_family': fam_summary, 'outside_bounds': getattr(mod, 'OUTSIDE', ''),
            'explanation': getattr(mod, 'EXPLANATION', ''),
            'exhaustive': False,
            'models_trusted': len(models.MODEL_NAMES),
            'solver': 'z3 ' + __import__('z3').get_version_string(),
            'second_solver_cvc5': cvc,
        },
        'assumptions': getattr(mod, 'ASSUMPTIONS', []) + [
            'core/intrinsic models in mirse/models.py are faithful (%d patterns)' % len(models.MODEL_NAMES),
            'rustc MIR -> machine code is correct (partially compensated by native replay of sampled paths)',
            'little-endian from_ne_bytes/to_ne_bytes'],
        'wall_s': round(wall, 1),
        'violations': len(reported),
    }
    ev['coverage'].update(extra_cov)
    if inconclusive: ev['coverage']['inconclusive'] = inconclusive[:10]
    if gate_fail: ev['coverage']['counterexamples_not_reproduced'] = [{'msg': v['msg'], 'replay': p, 'gate': st} for v, p, st, d in gate_fail[:5]]
    if known_lines: ev['coverage']['known_findings'] = known_lines
    os.makedirs(os.path.join(OUT, 'evidence'), exist_ok=True)
    json.dump(ev, open(os.path.join(OUT, 'evidence', f'{pid}.json'), 'w'), indent=1, default=str)
    for l in known_lines: print(l)
    for rep in job_reports:
        print(f"  [{rep.get('status')}] {rep['job']}: {rep.get('paths', 0)} paths, {rep.get('wall_s', 0)}s  ({rep['bound']})")
    if reported:
        for v, path, st, det in reported:
            print(f"  {v['prop']}: {v['msg']}  [{v['scenario']}] buf={v['buf']} flags={v['flags']} ({st}: {det['notes'][:2]})")
            print(f"VIOLATION property={pid} replay={path}")
        return 1
    if gate_fail:
        for v, path, st, det in gate_fail[:3]:
            print(f"  INCONCLUSIVE counterexample did not reproduce natively ({st}): {v['msg']} buf={v['buf']} flags={v['flags']} notes={det['notes'][:2]} -> {path}")
        return 2
    if inconclusive:
        for m in inconclusive[:5]: print('  INCONCLUSIVE: ' + m)
        return 2
    print(f'OK {pid}: held on {total.paths} paths, {total.obligations} obligations, {total.z3} solver queries, {nval} native validations, {round(wall, 1)}s')
    return 0


def replay_file(path):
    v = json.load(open(path))
    st, det = gate(v)
    print(json.dumps({'gate': st, 'notes': det['notes'], 'native': det['native']}, indent=1, default=str))
    if st in ('confirmed', 'unconfirmable'):
        print(f"VIOLATION property={v['prop']} replay={path}")
        return 1
    return 0
