"""Engine M: path-wise symbolic executor over rustc MIR text.

Concrete: control flow, pointers (allocation + concrete offset), lengths.  Symbolic: buffer bytes,
config flags and everything computed from them (sym.N nodes).  Exploration is stateless DFS by
re-execution along a recorded decision prefix."""
import re, sys
import z3
from . import sym
from .sym import N, MASK256
from .mir import split_top, Func


# ---------------------------------------------------------------- values
class IntV:
    __slots__ = ('w', 'v', 's')

    def __init__(self, w, v, s=False):
        self.w = w; self.s = s
        if v.__class__ is int: v &= (1 << w) - 1
        self.v = v

    def conc(self): return self.v.__class__ is int
    def __repr__(self): return f"i{self.w}:{self.v}"


class BoolV:
    __slots__ = ('v',)

    def __init__(self, v): self.v = v
    def conc(self): return self.v.__class__ is bool
    def __repr__(self): return f"b:{self.v}"


class AddrV:
    """integer obtained from a pointer: allocation + offset (the numeric base is deliberately unknown)"""
    __slots__ = ('w', 'alloc', 'root', 'off', 's')

    def __init__(self, w, alloc, root, off): self.w = w; self.alloc = alloc; self.root = root; self.off = off; self.s = False
    def conc(self): return False
    def __repr__(self): return f"addr({self.alloc}+{self.off})"


class Ref:
    """pointer: root container (list), path tuple (last element = offset in innermost list), meta (len) for fat pointers"""
    __slots__ = ('root', 'path', 'meta', 'alloc')

    def __init__(self, root, path, meta=None, alloc=None):
        self.root = root; self.path = path; self.meta = meta; self.alloc = alloc

    def __repr__(self): return f"Ref({self.alloc},{self.path[-1] if self.path else ''},len={self.meta})"


class EnumV:
    __slots__ = ('ty', 'var', 'idx', 'fields')

    def __init__(self, ty, var, idx, fields): self.ty = ty; self.var = var; self.idx = idx; self.fields = fields
    def __repr__(self): return f"{self.ty}::{self.var}{self.fields if self.fields else ''}"


class FnV:
    __slots__ = ('name', 'env')

    def __init__(self, name, env=None): self.name = name; self.env = env
    def __repr__(self): return f"fn({self.name})"


class Uninit:
    def __repr__(self): return "UNINIT"


UNINIT = Uninit()
UNIT = ()


class Table:
    """constant byte table indexed by a (possibly symbolic) integer"""
    __slots__ = ('data', 'is_bool')

    def __init__(self, data, is_bool=True): self.data = tuple(data); self.is_bool = is_bool
    def __len__(self): return len(self.data)

    def __getitem__(self, i):
        return BoolV(bool(self.data[i])) if self.is_bool else IntV(8, self.data[i])

    def lookup(self, idx):
        if idx.conc():
            if idx.v >= len(self.data): raise Panic('bounds', 'table index out of range')
            return self[idx.v]
        n = sym.table_lookup(self.data, idx.v, self.is_bool)
        return BoolV(n) if self.is_bool else IntV(8, n)


class Panic(Exception):
    def __init__(self, kind, msg): Exception.__init__(self, kind + ': ' + msg); self.kind = kind; self.msg = msg


class Unsupported(Exception): pass
class Infeasible(Exception): pass
class Inconclusive(Exception): pass


def clone(v):
    c = v.__class__
    if c is list: return [clone(x) for x in v]
    if c is EnumV: return EnumV(v.ty, v.var, v.idx, [clone(x) for x in v.fields])
    return v


def sx(v):
    x = v.v
    return x - (1 << v.w) if v.s and x >> (v.w - 1) else x


def nav(r):
    c = r.root
    for p in r.path[:-1]: c = c[p]
    return c, r.path[-1]


INT_RE = re.compile(r'^(-?\d+)_(u8|u16|u32|u64|usize|i8|i16|i32|i64|isize|u128|i128)$')
BINOPS = {'Add', 'Sub', 'Mul', 'BitAnd', 'BitOr', 'BitXor', 'Shl', 'Shr', 'Eq', 'Ne', 'Lt', 'Le', 'Gt', 'Ge', 'Offset',
          'AddWithOverflow', 'SubWithOverflow', 'MulWithOverflow', 'AddUnchecked', 'SubUnchecked', 'MulUnchecked',
          'ShlUnchecked', 'ShrUnchecked', 'Div', 'Rem', 'Cmp'}
UNOPS = {'Not', 'Neg', 'PtrMetadata'}
CMP = sym.CMP
NOOPS = ('StorageLive', 'StorageDead', 'ConstEvalCounter', 'nop', 'PlaceMention', 'FakeRead', 'Retag', 'AscribeUserType',
         'Coverage', 'BackwardIncompatibleDropHint', 'assume(', 'Deinit(')

BASE_ENUMS = {'Option': ['None', 'Some'], 'Result': ['Ok', 'Err'], 'ControlFlow': ['Continue', 'Break'],
              'Ordering': ['Less', 'Equal', 'Greater'], 'Cow': ['Borrowed', 'Owned']}


def bal(s):
    d = 0
    for c in s:
        if c in '([': d += 1
        elif c in ')]': d -= 1
        if d < 0: return False
    return d == 0


def matching(s, i):
    d = 0
    for j in range(i, len(s)):
        if s[j] == '(': d += 1
        elif s[j] == ')':
            d -= 1
            if d == 0: return j
    return -1


def place_end(s):
    if s.startswith('('): j = matching(s, 0) + 1
    else: j = re.match(r'_\d+', s).end()
    while j < len(s) and s[j] == '[':
        j = s.index(']', j) + 1
    return j


def strip_generics(p):
    if p.endswith('>') and not p.endswith('->'):
        # a trailing "::<impl Fn(u8) -> bool>" is a generic ARGUMENT list (an impl block is always followed by ::item)
        depth = 0; i = len(p) - 1
        while i >= 0:
            c = p[i]
            if c == '>' and p[i - 1:i] != '-': depth += 1
            elif c == '<':
                depth -= 1
                if depth == 0: break
            i -= 1
        if i >= 2 and p[i - 2:i] == '::' and p[i:].startswith('<impl '): p = p[:i - 2]
    out = []; depth = 0; i = 0; n = len(p)
    while i < n:
        if depth == 0 and p.startswith('::<', i) and not p.startswith('::<impl ', i):
            depth = 1; i += 3; continue
        if depth:
            c = p[i]
            if c in '<([': depth += 1
            elif c in '>)]' and p[i - 1] != '-': depth -= 1
            i += 1; continue
        out.append(p[i]); i += 1
    return ''.join(out)


class Program:
    """one MIR dump (a build variant of httparse, or the reference model) with its per-program caches"""
    def __init__(self, name, mir, src_dir, enums):
        self.name = name; self.mir = mir; self.src_dir = src_dir
        self.funcs = mir.funcs; self.consts = mir.consts; self.allocs = mir.allocs; self.statics = mir.statics
        self.ENUMS = dict(BASE_ENUMS); self.ENUMS.update(enums)
        self.VARIDX = {}
        from .mir import DISCRIMINANTS
        for t, vs in self.ENUMS.items():
            d = DISCRIMINANTS.get(t, {})
            for i, v in enumerate(vs):
                dv = d.get(v, i) if t in enums else i
                if dv is None: continue        # unknown discriminant: any use of this variant is reported as unsupported
                self.VARIDX[(t, v)] = dv
        self.constcache = {}; self.resolve_cache = {}
        self.operand_cache = {}; self.rvalue_cache = {}
        self.by_method = {}; self.drop_impls = {}; self.impl_span = {}
        self._closure_index = None
        self._index_impls()

    def _index_impls(self):
        srccache = {}

        def src(path):
            if path not in srccache:
                try: srccache[path] = open(self.src_dir + '/' + path).read().split('\n')
                except OSError: srccache[path] = None
            return srccache[path]
        for name, f in self.funcs.items():
            m = re.search(r'<impl at ([\w/.\-]+\.rs):(\d+):(\d+): (\d+):(\d+)>::(\w+)$', name)
            if not m: continue
            lines = src(m.group(1))
            if lines is None: continue
            l0 = int(m.group(2)) - 1
            line = lines[l0]
            lm = re.match(r'\s*(?:unsafe )?impl(?:<[^>]*>)?\s+(?:([\w:]+)(?:<[^>]*>)?\s+for\s+)?(\w+)', line)
            if lm: trait, ty = lm.group(1), lm.group(2)
            else:
                # derive(...) attribute: the span covers the trait name
                trait = lines[l0][int(m.group(3)) - 1:int(m.group(5)) - 1]
                j = l0 + 1
                while j < len(lines) and not re.match(r'\s*(pub(\([^)]*\))? )?(struct|enum) (\w+)', lines[j]): j += 1
                if j >= len(lines): continue
                ty = re.match(r'\s*(pub(\([^)]*\))? )?(struct|enum) (\w+)', lines[j]).group(4)
            if trait: trait = trait.split('::')[-1]
            self.impl_span[re.search(r'<impl at [^>]*>', name).group(0)] = (trait, ty)
            self.by_method.setdefault((trait, ty, m.group(6)), f)
            if trait == 'Drop' and m.group(6) == 'drop': self.drop_impls[ty] = f
        for cname in self.consts:
            sp = re.search(r'<impl at ([\w/.\-]+\.rs):(\d+):(\d+): (\d+):(\d+)>', cname)
            if not sp or sp.group(0) in self.impl_span: continue
            lines = src(sp.group(1))
            if lines is None: continue
            lm = re.match(r'\s*(?:unsafe )?impl(?:<[^>]*>)?\s+(?:([\w:]+)(?:<[^>]*>)?\s+for\s+)?(\w+)', lines[int(sp.group(2)) - 1])
            if lm: self.impl_span[sp.group(0)] = (lm.group(1).split('::')[-1] if lm.group(1) else None, lm.group(2))


class Engine:
    def __init__(self, ptr_width=64, models=None):
        self.PW = ptr_width
        self.WIDTH = {'u8': 8, 'i8': 8, 'u16': 16, 'i16': 16, 'u32': 32, 'i32': 32, 'u64': 64, 'i64': 64,
                      'usize': ptr_width, 'isize': ptr_width, 'u128': 128, 'i128': 128, 'bool': 1, 'char': 32}
        self.models = models or []
        self.model_cache = {}
        self.place_cache = {}
        self.summary_cache = {}
        self.programs = {}
        self.P = None
        self.hooks = {}            # name -> callable, for instrumentation (C20 counters, C19 call log)
        self.call_log = None
        self.fuel = 10 ** 7
        self.reset([])

    def add_program(self, prog):
        self.programs[prog.name] = prog
        if self.P is None: self.use(prog.name)
        return prog

    def use(self, name):
        """make program `name` current; returns the previous program's name"""
        prev = self.P.name if self.P is not None else None
        p = self.programs[name]; self.P = p
        self.funcs = p.funcs; self.consts = p.consts; self.allocs = p.allocs; self.statics = p.statics
        self.ENUMS = p.ENUMS; self.VARIDX = p.VARIDX
        self.constcache = p.constcache; self.resolve_cache = p.resolve_cache
        self.operand_cache = p.operand_cache; self.rvalue_cache = p.rvalue_cache
        self.by_method = p.by_method; self.drop_impls = p.drop_impls
        return prev

    # ------------------------------------------------------------ path state
    def reset(self, decisions):
        self.decisions = list(decisions); self.dpos = 0; self.pending = []
        self.dom = {}             # var -> 256-bit mask
        self.multi = []           # multi-variable constraints (bool nodes)
        self.entangled = set()
        self.trace = []           # (cond node or (var,mask)) in order, for z3 cross-check
        self.nvars = 0
        self.gstack = []
        self.steps = 0
        self.zsolver = None; self.zdom_added = {}; self.zmulti_added = 0
        self.nz3 = 0; self.ndec = 0; self.ntab = 0
        self.pruned = []          # (trace_len, pruned cond) for cross-check
        self.depth = 0
        self.counters = {}
        self.varnames = {}
        self.init_dom = {}

    def new_var(self, mask=MASK256, name=None):
        v = self.nvars; self.nvars += 1; self.dom[v] = mask; self.init_dom[v] = mask
        if name: self.varnames[v] = name
        return v

    def new_byte(self, name=None):
        return IntV(8, sym.var_node(self.new_var(MASK256, name)))

    def new_flag(self, name=None):
        return BoolV(sym.flag_node(self.new_var(3, name)))

    # ------------------------------------------------------------ solver / branching
    def _zs(self, need_vars):
        if self.zsolver is None:
            self.zsolver = z3.Solver(); self.zdom_added = {}; self.zmulti_added = 0
        s = self.zsolver
        while self.zmulti_added < len(self.multi):
            c = self.multi[self.zmulti_added]; self.zmulti_added += 1
            s.add(sym.zexpr(c))
        allv = set(need_vars) | self.entangled
        for v in allv:
            m = self.dom[v]
            if self.zdom_added.get(v) != m:
                s.add(sym.zmask(sym.zvar(v), m)); self.zdom_added[v] = m
        return s

    def feasible_z3(self, cond):
        """cond: bool node (multi-var or entangled). returns satisfiable?"""
        s = self._zs(sym.support(cond))
        s.push(); s.add(sym.zexpr(cond)); self.nz3 += 1
        r = s.check(); s.pop()
        if r == z3.sat: return True
        if r == z3.unsat: return False
        raise Inconclusive('solver returned unknown')

    def _assume(self, cond):
        """record chosen branch condition"""
        if cond.var is not None and cond.var not in self.entangled:
            self.dom[cond.var] &= sym.mask_of(cond.tid)
        else:
            self.multi.append(cond); self.entangled |= sym.support(cond)
        self.trace.append(cond)

    def decide(self, conds):
        """conds: list of bool nodes (mutually exclusive, jointly exhaustive). returns index chosen."""
        self.ndec += 1
        if self.dpos < len(self.decisions):
            k = self.decisions[self.dpos]; self.dpos += 1
            self._assume(conds[k]); return k
        feas = []
        for k, c in enumerate(conds):
            if c.var is not None and c.var not in self.entangled:
                self.ntab += 1
                ok = (self.dom[c.var] & sym.mask_of(c.tid)) != 0
            else:
                ok = self.feasible_z3(c)
            if ok: feas.append(k)
            else: self.pruned.append((len(self.trace), c))
        if not feas: raise Infeasible()
        if len(feas) > 1:
            for k in feas[1:]: self.pending.append(self.decisions[:self.dpos] + [k])
            k = feas[0]; self.decisions.append(k); self.dpos += 1
        else:
            k = feas[0]
            # forced: not a decision point, but must be replayed identically -> record
            self.decisions.append(k); self.dpos += 1
        self._assume(conds[k]); return k

    def branch_bool(self, b):
        v = b.v
        if v.__class__ is bool: return v
        return self.decide([v, sym.boolop('Not', v)]) == 0

    def concretize(self, v, lo, hi):
        """case split a symbolic integer over lo..=hi (plus 'outside'), returns concrete IntV"""
        if v.conc(): return v
        n = v.v
        conds = [sym.binop('Eq', n, i, v.w, v.s) for i in range(lo, hi + 1)]
        # outside range
        out = None
        for c in conds:
            nc = sym.boolop('Not', c); out = nc if out is None else sym.boolop('And', out, nc)
        conds.append(out)
        k = self.decide(conds)
        if k == len(conds) - 1: raise Panic('range', f'symbolic integer outside expected range {lo}..={hi}')
        return IntV(v.w, lo + k, v.s)

    # ------------------------------------------------------------ places
    def parse_place(self, s):
        p = self.place_cache.get(s)
        if p is not None: return p
        s0 = s; s = s.strip(); proj = []
        while True:
            m = re.match(r'^(.*)\[(_\d+)\]$', s)
            m2 = re.match(r'^(.*)\[(-?\d+) of (\d+)\]$', s)
            m3 = re.match(r'^(.*)\[(\d+):(-?\d*)\]$', s)
            if m and bal(m.group(1)): proj.append(('index', int(m.group(2)[1:]))); s = m.group(1); continue
            if m2 and bal(m2.group(1)):
                k = int(m2.group(2)); proj.append(('cindex', k)); s = m2.group(1); continue
            if m3 and bal(m3.group(1)): raise Unsupported('subslice place ' + s0)
            if s.startswith('(') and s.endswith(')') and matching(s, 0) == len(s) - 1:
                inner = s[1:-1].strip()
                if inner.startswith('*'):
                    proj.append(('deref',)); s = inner[1:].strip(); continue
                j = place_end(inner)
                rest = inner[j:]
                fm = re.match(r'^\.(\d+): ', rest)
                dm = re.match(r'^ as (\w+)$', rest)
                if fm: proj.append(('field', int(fm.group(1)))); s = inner[:j]; continue
                if dm: proj.append(('downcast', dm.group(1))); s = inner[:j]; continue
                raise Unsupported('place ' + s0)
            if s.startswith('*'):
                proj.append(('deref',)); s = s[1:].strip(); continue
            break
        if not re.match(r'^_\d+$', s): raise Unsupported('place base ' + s0)
        p = (int(s[1:]), tuple(proj[::-1]))
        self.place_cache[s0] = p
        return p

    def loc(self, fr, place, for_write=False):
        base, proj = place
        cont, key = fr, base; is_slice = False
        for p in proj:
            k0 = p[0]
            if is_slice and (k0 == 'index' or k0 == 'cindex'):
                idx = fr[p[1]] if k0 == 'index' else IntV(self.PW, p[1])
                if not idx.conc(): idx = self.concretize(idx, 0, len(cont))
                key = key + idx.v; is_slice = False
                if key >= len(cont) or key < 0: raise Panic('oob', 'slice index beyond allocation')
                continue
            is_slice = False
            if k0 == 'deref':
                r = cont[key]
                if r.__class__ is not Ref:
                    if r is UNINIT: raise Panic('uninit', 'deref of uninitialized pointer')
                    raise Unsupported(f'deref of non-ref {r}')
                cont = r.root
                pth = r.path
                for q in pth[:-1]: cont = cont[q]
                key = pth[-1]; is_slice = r.meta is not None
                if not is_slice and (key >= len(cont) if cont.__class__ is list else False):
                    raise Panic('oob', 'dereference of pointer past the end of its allocation')
            elif k0 == 'field':
                v = cont[key]
                if v.__class__ is EnumV: cont, key = v.fields, p[1]
                elif v.__class__ is list:
                    if for_write and p[1] >= len(v) and all(x is UNINIT for x in v): v.extend([UNINIT] * (p[1] + 1 - len(v)))
                    cont, key = v, p[1]
                elif v is UNINIT:
                    if not for_write: raise Panic('uninit', 'field of uninitialized value')
                    v = [UNINIT] * (p[1] + 1); cont[key] = v; cont, key = v, p[1]
                elif v.__class__ is FnV and v.env is not None:
                    cont, key = v.env, p[1]          # captured variables of a closure
                elif v.__class__ is Ref and v.meta is not None:
                    # fat pointer fields (data ptr, len): synthesize
                    cont, key = [Ref(v.root, v.path, None, v.alloc), IntV(self.PW, v.meta)], p[1]
                else: raise Unsupported(f'field of {v}')
            elif k0 == 'downcast': pass
            else:
                idx = fr[p[1]] if k0 == 'index' else IntV(self.PW, p[1])
                v = cont[key]
                if v.__class__ is Table:
                    return ('table', v, idx)
                if not idx.conc(): idx = self.concretize(idx, 0, len(v))
                if idx.v >= len(v): raise Panic('oob', 'array index out of bounds')
                cont, key = v, idx.v
        return cont, key

    def read_place(self, fr, place):
        if not place[1]:
            v = fr[place[0]]
        else:
            l = self.loc(fr, place)
            if l[0] == 'table': return l[1].lookup(l[2])
            c = l[0]
            if c.__class__ is list and l[1] >= len(c): raise Panic('oob', 'read past the end of allocation')
            v = c[l[1]]
            h = self.hooks.get('read')
            if h: h(c, l[1])
        if v is UNINIT: raise Panic('uninit', 'read of uninitialized memory at ' + str(place))
        return v

    def write_place(self, fr, place, val):
        if not place[1]: fr[place[0]] = val; return
        c, k = self.loc(fr, place, True)
        if c == 'table': raise Panic('write', 'write to constant table')
        if c.__class__ is list and k >= len(c): raise Panic('oob', 'write past the end of allocation')
        c[k] = val

    # ------------------------------------------------------------ operands
    def compile_operand(self, s):
        f = self.operand_cache.get(s)
        if f is not None: return f
        s1 = s.strip()
        if s1.startswith('no_retag '): s1 = s1[9:]
        if s1.startswith('copy ') or s1.startswith('move '):
            place = self.parse_place(s1[5:])
            if not place[1]:
                b = place[0]

                def f(fr, b=b, s1=s1):
                    v = fr[b]
                    if v is UNINIT: raise Panic('uninit', 'read of uninitialized local ' + s1)
                    return clone(v) if v.__class__ in (list, EnumV) else v
            else:
                def f(fr, place=place):
                    v = self.read_place(fr, place)
                    return clone(v) if v.__class__ in (list, EnumV) else v
        elif s1.startswith('const '):
            c = s1[6:].strip()
            try:
                val = self.const(c); static = True
            except Unsupported:
                raise
            if val.__class__ in (list, EnumV):
                def f(fr, val=val): return clone(val)
            else:
                def f(fr, val=val): return val
        elif re.match(r'^[A-Za-z_<][\w:<>\' ,\[\];&{}@/.]*$', s1):
            val = FnV(s1)
            def f(fr, val=val): return val
        else:
            raise Unsupported('operand ' + s)
        self.operand_cache[s] = f
        return f

    def const(self, c):
        m = INT_RE.match(c)
        if m: return IntV(self.WIDTH[m.group(2)], int(m.group(1)), m.group(2)[0] == 'i')
        mm = re.match(r'^(?:core::num::<impl )?(u8|u16|u32|u64|usize|i8|i16|i32|i64|isize|u128|i128)>?::(MAX|MIN)$', c)
        if mm:
            w = self.WIDTH[mm.group(1)]; sg = mm.group(1)[0] == 'i'
            v = ((1 << (w - 1)) - 1 if sg else (1 << w) - 1) if mm.group(2) == 'MAX' else (-(1 << (w - 1)) if sg else 0)
            return IntV(w, v, sg)
        if c == 'true': return BoolV(True)
        if c == 'false': return BoolV(False)
        if c == '()': return UNIT
        if c.startswith('*b"') or c.startswith('b"'):
            lit = c[1:] if c.startswith('*') else c
            arr = [IntV(8, x) for x in eval(lit)]
            return arr if c.startswith('*') else Ref([arr], (0,), None, 'static')
        if c.startswith('"'):
            bs = eval('b' + c) if all(ord(x) < 128 for x in c) else eval(c).encode()
            cells = [IntV(8, x) for x in bs]
            return Ref(cells, (0,), len(cells), 'static_str')
        if c.startswith('PhantomData'): return UNIT
        m = re.match(r'^<(.*) as (?:std|core)::mem::SizedTypeProperties>::(SIZE|ALIGN)$', c)
        if m:
            sz, al = self.type_layout(m.group(1).strip())
            return IntV(self.PW, sz if m.group(2) == 'SIZE' else al)
        m = re.match(r'^\{(alloc\w+): &.*\}$', c)
        if m:
            data = self.allocs[m.group(1)]
            return Ref([Table([int(x, 16) for x in data])], (0,), None, 'static')
        m = re.match(r'^(?:[\w:]+::)?(\w+)::<.*>::(\w+)$', c) or re.match(r'^(?:[\w:]+::)?(\w+)::(\w+)$', c)
        if m and (m.group(1), m.group(2)) in self.VARIDX:
            return EnumV(m.group(1), m.group(2), self.VARIDX[(m.group(1), m.group(2))], [])
        if c.startswith('ZeroSized: '):
            rest = c[11:].strip()
            if rest.startswith('{closure@') or rest.startswith('fn(') or re.match(r'^[\w:<>]+(::\w+)+$', rest): return FnV(rest)
            return UNIT
        if c in ('InvalidChunkSize',): return UNIT
        if re.match(r'^\{closure@', c): return FnV(c)
        key = c
        pm = re.match(r'^(.*?)(?:::)?(\w+)::(promoted\[\d+\])$', c)
        if pm and c not in self.consts:
            # promoted constant of a method: the use site names the type/trait path, the definition names the impl span
            tail = pm.group(2) + '::' + pm.group(3); pre = strip_generics(pm.group(1))
            cs = [k for k in self.consts if k == tail or k.endswith('::' + tail)]
            if len(cs) > 1:
                def ok(k):
                    sp = re.search(r'<impl at [^>]*>', k)
                    if not sp: return pre == '' or k.startswith(pre)
                    trait, ty = self.P.impl_span.get(sp.group(0), (None, None))
                    tm = re.match(r'^<(?:&?(?:mut )?)?(?:\w+::)*(\w+)(?:<.*>)? as (?:\w+::)*(\w+)', pre)
                    if tm: return tm.group(1) == ty and tm.group(2) == trait
                    return trait is None and pre.split('::')[-1] == ty
                cs = [k for k in cs if ok(k)]
            if len(cs) == 1: key = cs[0]
            else: raise Unsupported(f'promoted constant {c}: {len(cs)} candidate definitions')
        am = re.match(r'^(?:[\w]+::)*(\w+)(?:::<.*>)?::([A-Z_][A-Z0-9_]*)$', c)
        if am and c not in self.consts:
            cs = [k for k in self.consts if k.endswith('>::' + am.group(2)) and self.P.impl_span.get((re.search(r'<impl at [^>]*>', k) or re.match('', '')).group(0) if re.search(r'<impl at [^>]*>', k) else '', (None, None))[1] == am.group(1)]
            if len(cs) == 1: key = cs[0]
        cands = [k for k in self.consts if key == k or key.endswith('::' + k) or k.endswith('::' + key)]
        if len(cands) >= 1:
            k = sorted(cands, key=len)[-1]
            if k not in self.constcache:
                body = self.consts[k]
                if isinstance(body, Func): self.constcache[k] = self.call_func(body, [])
                else: self.constcache[k] = self.const(body[6:] if body.startswith('const ') else body)
            return clone(self.constcache[k])
        if 'promoted[' in c: raise Unsupported('promoted constant not found: ' + c)
        if re.match(r'^[\w:<>\' ,\[\];&{}@/.()\-]+$', c) and ('fn' in c or '::' in c or c.islower()):
            return FnV(c)   # zero-sized fn item
        raise Unsupported('const ' + c)

    # ------------------------------------------------------------ rvalues
    def compile_rvalue(self, rv0):
        f = self.rvalue_cache.get(rv0)
        if f is not None: return f
        f = self._compile_rvalue(rv0)
        self.rvalue_cache[rv0] = f
        return f

    def _compile_rvalue(self, rv):
        rv = rv.strip()
        if rv.startswith('no_retag '): rv = rv[9:]
        m = re.match(r'^((?:copy|move|const) .*) as (.*) \((\w+)(?:\(.*\))?\)$', rv)
        if m:
            op = self.compile_operand(m.group(1)); ty = m.group(2).strip(); kind = m.group(3)
            return lambda fr: self.cast(op(fr), ty, kind)
        if rv.startswith(('copy ', 'move ', 'const ')): return self.compile_operand(rv)
        if rv.startswith('deref_copy '):
            place = self.parse_place(rv[11:])
            return lambda fr: clone(self.read_place(fr, place))
        m = re.match(r'^&(?:raw (?:const|mut) |mut |fake shallow |fake )?(.*)$', rv)
        if m and not rv.startswith('&&'):
            base, proj = self.parse_place(m.group(1))
            if proj and proj[-1] == ('deref',):
                inner = (base, proj[:-1])

                def f(fr):
                    r = self.read_place(fr, inner)
                    if r.__class__ is not Ref: raise Unsupported('reborrow of non-ref')
                    return r
                return f
            place = (base, proj)
            last_index = bool(proj) and proj[-1][0] in ('index', 'cindex')

            def f(fr):
                l = self.loc(fr, place)
                if l[0] == 'table': raise Unsupported('reference into constant table')
                return Ref(l[0], (l[1],), None, self.alloc_of(fr, place, l))
            return f
        m = re.match(r'^(\w+)\((.*)\)$', rv)
        if m and (m.group(1) in BINOPS or m.group(1) in UNOPS or m.group(1) == 'discriminant'):
            op = m.group(1); args = split_top(m.group(2))
            if op == 'discriminant':
                place = self.parse_place(args[0])

                def f(fr):
                    v = self.read_place(fr, place)
                    if v.__class__ is not EnumV: raise Unsupported(f'discriminant of {v}')
                    return v.idx if v.idx.__class__ is IntV else IntV(self.PW, v.idx, True)
                return f
            if op == 'PtrMetadata':
                o = self.compile_operand(args[0])

                def f(fr):
                    r = o(fr)
                    if r.meta is None: return UNIT
                    return IntV(self.PW, r.meta)
                return f
            ops = [self.compile_operand(a) for a in args]
            if op in BINOPS:
                o1, o2 = ops
                return lambda fr: self.binop(op, o1(fr), o2(fr))
            o1 = ops[0]
            return lambda fr: self.unop(op, o1(fr))
        if rv.startswith('[') and rv.endswith(']'):
            inner = rv[1:-1]
            parts = split_top(inner, ';')
            if len(parts) == 2:
                n = self.const_usize(parts[1]); o = self.compile_operand(parts[0])
                return lambda fr: [clone(o(fr)) for _ in range(n)]
            ops = [self.compile_operand(a) for a in split_top(inner)]
            return lambda fr: [o(fr) for o in ops]
        if rv.startswith('(') and rv.endswith(')'):
            ops = [self.compile_operand(a) for a in split_top(rv[1:-1])]
            return lambda fr: [o(fr) for o in ops]
        if rv in ('SizeOf', 'AlignOf') or rv.startswith(('SizeOf(', 'AlignOf(')):
            raise Unsupported('rvalue ' + rv)
        m = re.match(r'^(.*?) \{ (.*) \}$', rv)
        if m and not rv.startswith('{'):
            ops = [self.compile_operand(fd.split(': ', 1)[1]) for fd in split_top(m.group(2))]
            return lambda fr: [o(fr) for o in ops]
        if rv.startswith('{closure@') or rv.startswith('{coroutine@'):
            # closure aggregate: "{closure@src/lib.rs:1:2: 3:4}" optionally with captured operands "{ f: move _9 }"
            cm = re.match(r'^(\{closure@[^}]*\})(?: \{ (.*) \})?$', rv)
            if cm and cm.group(2):
                name = cm.group(1); ops = [self.compile_operand(fd.split(': ', 1)[1]) for fd in split_top(cm.group(2))]
                return lambda fr: FnV(name, [o(fr) for o in ops])
            name = cm.group(1) if cm else rv
            return lambda fr: FnV(name)
        mm = None
        if rv.endswith(')'):
            d = 0; j = len(rv) - 1
            while j >= 0:
                if rv[j] == ')': d += 1
                elif rv[j] == '(':
                    d -= 1
                    if d == 0: break
                j -= 1
            if j > 0 and rv[j - 1] not in '<, ': mm = (rv[:j], rv[j + 1:-1])
        path = strip_generics(mm[0] if mm else rv)
        segs = path.split('::')
        if len(segs) >= 2 and (segs[-2], segs[-1]) in self.VARIDX:
            ops = [self.compile_operand(a) for a in split_top(mm[1])] if mm else []
            ty, var = segs[-2], segs[-1]; idx = self.VARIDX[(ty, var)]
            return lambda fr: EnumV(ty, var, idx, [o(fr) for o in ops])
        if mm is None and re.match(r'^[\w:]+$', path):
            # unit struct
            return lambda fr: UNIT
        if mm is not None and re.match(r'^[\w:]+$', path):
            ops = [self.compile_operand(a) for a in split_top(mm[1])]
            return lambda fr: [o(fr) for o in ops]
        raise Unsupported('rvalue ' + rv)

    def alloc_of(self, fr, place, l):
        # references to locals / fields of locals
        return 'local'

    def type_layout(self, t):
        """(size, align) in bytes of the few types whose layout the debug-build UB checks mention"""
        pw = self.PW // 8
        if t in self.WIDTH and t != 'bool': return (self.WIDTH[t] // 8, self.WIDTH[t] // 8 if self.WIDTH[t] <= 64 else 16)
        if t == 'bool': return (1, 1)
        if t == '()': return (0, 1)
        m = re.match(r'^\[(.*); (\d+)\]$', t)
        if m:
            s, a = self.type_layout(m.group(1)); return (s * int(m.group(2)), a)
        if t.startswith(('&', '*const ', '*mut ')):
            inner = re.sub(r"^(&(\'\w+ )?(mut )?|\*const |\*mut )", '', t)
            fat = inner.startswith('[') and ';' not in inner or inner in ('str',) or inner.startswith('dyn ')
            return (2 * pw if fat else pw, pw)
        raise Unsupported('layout of type ' + t)

    def const_usize(self, s):
        s = s.strip()
        if s.startswith('const '): s = s[6:]
        m = INT_RE.match(s)
        if m: return int(m.group(1))
        if s.isdigit(): return int(s)
        return self.const(s).v

    # ------------------------------------------------------------ arithmetic
    def binop(self, op, a, b):
        ca = a.__class__
        if ca is Ref:
            if op == 'Offset':
                if not b.conc(): b = self.concretize(b, 0, 1 << 16)
                return self.ptr_offset(a, sx(b))
            if b.__class__ is not Ref: raise Unsupported('pointer compared with non-pointer')
            same = self.same_alloc(a, b)
            oa, ob = a.path[-1], b.path[-1]
            if op in ('Eq', 'Ne'):
                eq = same and oa == ob
                return BoolV(eq if op == 'Eq' else not eq)
            if not same: raise Panic('ptrcmp', 'ordering comparison of pointers into different allocations')
            return BoolV({'Lt': oa < ob, 'Le': oa <= ob, 'Gt': oa > ob, 'Ge': oa >= ob}[op])
        if ca is AddrV or b.__class__ is AddrV:
            return self.addr_binop(op, a, b)
        if ca is BoolV:
            av, bv = a.v, b.v
            if av.__class__ is bool and bv.__class__ is bool:
                return BoolV({'Eq': av == bv, 'Ne': av != bv, 'BitAnd': av and bv, 'BitOr': av or bv, 'BitXor': av != bv}[op])
            return BoolV(sym.boolop({'Eq': 'Eq', 'Ne': 'Ne', 'BitAnd': 'And', 'BitOr': 'Or', 'BitXor': 'Xor'}[op], av, bv))
        if ca is not IntV:
            if ca is EnumV and op in ('Eq', 'Ne') and not a.fields and not b.fields:
                return BoolV((a.idx == b.idx) == (op == 'Eq'))
            raise Unsupported(f'binop {op} on {a}')
        w, s = a.w, a.s
        av, bv = a.v, b.v
        if av.__class__ is int and bv.__class__ is int:
            x, y = (sx(a), sx(b)) if s else (av, bv)
            if op in CMP: return BoolV({'Eq': x == y, 'Ne': x != y, 'Lt': x < y, 'Le': x <= y, 'Gt': x > y, 'Ge': x >= y}[op])
            if op.endswith('WithOverflow'):
                r = {'Add': x + y, 'Sub': x - y, 'Mul': x * y}[op[:3]]
                lo, hi = (-(1 << (w - 1)), (1 << (w - 1)) - 1) if s else (0, (1 << w) - 1)
                return [IntV(w, r, s), BoolV(not (lo <= r <= hi))]
            if op in ('Shl', 'Shr', 'ShlUnchecked', 'ShrUnchecked'):
                y = bv % w
                return IntV(w, (x << y) if op.startswith('Shl') else (x >> y), s)
            if op in ('Div', 'Rem'):
                if y == 0: raise Panic('div', 'division by zero')
                q = abs(x) // abs(y) * (1 if (x < 0) == (y < 0) else -1)
                return IntV(w, q if op == 'Div' else x - q * y, s)
            if op == 'Cmp':
                k = 0 if x < y else (1 if x == y else 2)
                return EnumV('Ordering', ['Less', 'Equal', 'Greater'][k], IntV(8, k - 1, True), [])
            r = {'Add': x + y, 'Sub': x - y, 'Mul': x * y, 'BitAnd': x & y, 'BitOr': x | y, 'BitXor': x ^ y,
                 'AddUnchecked': x + y, 'SubUnchecked': x - y, 'MulUnchecked': x * y}[op]
            if op.endswith('Unchecked'):
                lo, hi = (-(1 << (w - 1)), (1 << (w - 1)) - 1) if s else (0, (1 << w) - 1)
                if not lo <= r <= hi: raise Panic('overflow', 'unchecked arithmetic overflowed (UB)')
            return IntV(w, r, s)
        if op in ('Div', 'Rem'):
            # symbolic dividend, concrete divisor: exact (table domain for one-byte values, bvudiv/bvsdiv/bvurem/bvsrem otherwise)
            if bv.__class__ is not int: raise Unsupported('symbolic divisor in ' + op)
            y = sx(b) if s else bv
            if y == 0: raise Panic('div', 'division by zero')
            if s and y == -1: raise Unsupported('signed ' + op + ' by -1 of a symbolic value')
            return IntV(w, sym.binop(op, av, bv, w, s), s)
        if op == 'Cmp': raise Unsupported('symbolic ' + op)
        if op.startswith('Sh') and b.w != w and bv.__class__ is int: bv = bv % w
        r = sym.binop(op, av, bv, w, s)
        if r.__class__ is tuple: return [IntV(w, r[0], s), BoolV(r[1])]
        if op in CMP: return BoolV(r)
        return IntV(w, r, s)

    def same_alloc(self, a, b):
        if a.root is not b.root or len(a.path) != len(b.path): return False
        return a.path[:-1] == b.path[:-1]

    def addr_binop(self, op, a, b):
        if a.__class__ is AddrV and b.__class__ is AddrV:
            same = a.root is b.root
            if op in ('Eq', 'Ne'):
                if same: return BoolV((a.off == b.off) == (op == 'Eq'))
                # two addresses that each point AT an element of a different live allocation cannot be equal (allocations are
                # disjoint); one-past-the-end or out-of-range offsets could coincide with a neighbour: address-dependent
                try: inb = 0 <= a.off < len(a.root) and 0 <= b.off < len(b.root)
                except TypeError: inb = False
                if inb: return BoolV(op == 'Ne')
                raise Unsupported('address comparison across allocations')
            if not same: raise Unsupported('address arithmetic across allocations')
            if op in CMP: return BoolV({'Lt': a.off < b.off, 'Le': a.off <= b.off, 'Gt': a.off > b.off, 'Ge': a.off >= b.off}[op])
            if op in ('Sub', 'SubUnchecked'):
                if a.off < b.off: raise Panic('overflow', 'address subtraction underflow')
                return IntV(a.w, a.off - b.off)
            if op == 'SubWithOverflow': return [IntV(a.w, a.off - b.off), BoolV(a.off < b.off)]
        if a.__class__ is AddrV and b.__class__ is IntV and b.conc():
            if op in ('Eq', 'Ne') and b.v == 0: return BoolV(op == 'Ne')   # allocations are never at address 0
            if op == 'BitAnd' and b.v == 0: return IntV(a.w, 0)
            if op == 'BitAnd' and a.alloc != 'buf' and b.v < 16: return IntV(a.w, 0)   # non-buffer allocations are aligned for their type
            if op in ('Add', 'AddUnchecked'): return AddrV(a.w, a.alloc, a.root, a.off + b.v)
            if op == 'AddWithOverflow': return [AddrV(a.w, a.alloc, a.root, a.off + b.v), BoolV(False)]   # allocations do not wrap around the address space
            if op == 'SubWithOverflow': return [AddrV(a.w, a.alloc, a.root, a.off - b.v), BoolV(False)]
            if op in ('Sub', 'SubUnchecked'): return AddrV(a.w, a.alloc, a.root, a.off - b.v)
        raise Unsupported(f'address-dependent computation: {op}({a}, {b}) -- result would depend on where the buffer is placed')

    def unop(self, op, a):
        if op == 'Not':
            if a.__class__ is BoolV:
                return BoolV((not a.v) if a.v.__class__ is bool else sym.boolop('Not', a.v))
            if a.conc(): return IntV(a.w, ~a.v, a.s)
            return IntV(a.w, sym.unop('Not', a.v, a.w, a.s), a.s)
        if op == 'Neg':
            if a.conc(): return IntV(a.w, -a.v, a.s)
            return IntV(a.w, sym.unop('Neg', a.v, a.w, a.s), a.s)
        raise Unsupported(op)

    def cast(self, v, ty, kind):
        if kind == 'IntToInt':
            w = self.WIDTH.get(ty)
            if w is None: raise Unsupported('cast to ' + ty)
            s = ty[0] == 'i'
            if v.__class__ is BoolV:
                if v.conc(): return IntV(w, int(v.v), s)
                return IntV(w, sym.bool_to_int(v.v, w), s)
            if v.__class__ is AddrV:
                if w == v.w: return v
                raise Unsupported('truncating cast of an address')
            if v.__class__ is EnumV and not v.fields:
                return IntV(w, v.idx if isinstance(v.idx, int) else sx(v.idx), s)
            if v.conc(): return IntV(w, sx(v) if v.s else v.v, s)
            if w == v.w: return IntV(w, v.v, s)
            return IntV(w, sym.cast_int(v.v, v.w, v.s, w), s)
        if kind in ('PtrToPtr', 'PointerCoercion', 'MutToConstPointer', 'Unsize'):
            if v.__class__ is Ref and v.meta is None and ('[' in ty and ']' in ty and ';' not in ty):
                c, k = nav(v); arr = c[k]
                if arr.__class__ is list: return Ref(arr, (0,), len(arr), v.alloc)
            if v.__class__ is Ref and v.meta is not None and '[' not in ty and ' str' not in ty and not ty.endswith('str'):
                # fat -> thin
                return Ref(v.root, v.path, None, v.alloc)
            return v
        if kind in ('PointerExposeProvenance', 'PointerExposeAddress'):
            return AddrV(self.PW, v.alloc, v.root if len(v.path) == 1 else nav(v)[0], v.path[-1])
        if kind == 'Transmute':
            if v.__class__ is Ref and ty in ('usize', 'isize'):
                return AddrV(self.PW, v.alloc, v.root if len(v.path) == 1 else nav(v)[0], v.path[-1])
            return v
        if kind in ('PointerWithExposedProvenance',):
            raise Unsupported('int to pointer cast')
        raise Unsupported(f'cast {kind} to {ty}')

    def ptr_offset(self, r, n):
        c, k = nav(r)
        k2 = k + n
        if c.__class__ is list and (k2 < 0 or k2 > len(c)):
            raise Panic('oob', f'pointer arithmetic leaves the allocation (UB): offset {k}+{n} in allocation of {len(c)}')
        return Ref(r.root, r.path[:-1] + (k2,), r.meta, r.alloc)

    # ------------------------------------------------------------ calls
    def resolve(self, path):
        r = self.resolve_cache.get(path, 0)
        if r != 0: return r
        p = strip_generics(path)
        f = None
        if p in self.funcs: f = self.funcs[p]
        else:
            m = re.match(r'^<(?:\w+::)*(\w+)(?:<.*>)? as (?:\w+::)*(\w+)(?:<.*>)?>::(\w+)$', path)
            if m and (m.group(2), m.group(1), m.group(3)) in self.by_method:
                f = self.by_method[(m.group(2), m.group(1), m.group(3))]
            else:
                segs = p.split('::')
                if len(segs) >= 2 and (None, segs[-2], segs[-1]) in self.by_method:
                    f = self.by_method[(None, segs[-2], segs[-1])]
                else:
                    cands = [g for n, g in self.funcs.items() if n.endswith('::' + p) or p.endswith('::' + n)]
                    if len(cands) == 1: f = cands[0]
        self.resolve_cache[path] = f
        return f

    def find_model(self, path):
        r = self.model_cache.get(path, 0)
        if r != 0: return r
        sp = strip_generics(path); fn = None
        for pat, g in self.models:
            if re.search(pat, sp) or re.search(pat, path): fn = g; break
        self.model_cache[path] = fn
        return fn

    def call_path(self, path, args):
        self.gstack.append(path)
        try:
            if self.call_log is not None: self.call_log.add(path)
            f = self.resolve(path)
            hk = self.hooks.get('call')
            if hk: hk(path, f, args)
            if f is not None:
                if f.nargs == 1 and len(args) == 1 and args[0].__class__ is IntV and not args[0].conc() \
                        and args[0].v.var is not None and f.ret_ty == 'bool' and args[0].w == 8:
                    r = self.summarize_pure(f, args[0])
                    if r is not None: return r
                return self.call_func(f, args)
            fn = self.find_model(path)
            if fn is None: raise Unsupported('call to unmodelled function ' + path)
            return fn(self, path, args)
        finally:
            self.gstack.pop()

    def closure_index(self):
        ci = self.P._closure_index
        if ci is None:
            ci = {}
            for name, f in self.funcs.items():
                if '{closure#' not in name: continue
                m = re.search(r'\{closure@(.*?):(\d+):(\d+): (\d+):(\d+)\}', f.sig)
                if m: ci[(m.group(1), int(m.group(2)), int(m.group(3)))] = f
            self.P._closure_index = ci
        return ci

    def summarize_generic(self, thunk, node):
        """thunk(node) -> BoolV, a side-effect-free predicate of ONE unary 8-bit node.  Explores all of its internal
        paths over the full 8-bit domain of the node's variable; returns the 256-bit mask of values for which it
        is true, or -1 if it is not foldable (panics, multi-variable conditions, non-bool result)."""
        saved = (self.decisions, self.dpos, self.pending, self.dom, self.multi, self.entangled, self.trace,
                 self.pruned, self.zsolver, self.zdom_added, self.zmulti_added, self.steps, self.ndec, self.depth)
        var = node.var
        tmask = 0; ok = True
        work = [[]]
        try:
            while work:
                dec = work.pop()
                self.decisions = list(dec); self.dpos = 0; self.pending = []
                self.dom = {var: MASK256}; self.multi = []; self.entangled = set(); self.trace = []; self.pruned = []
                self.zsolver = None
                try:
                    r = thunk(node)
                except Infeasible:
                    continue
                except Panic:
                    ok = False; break
                if self.multi or r.__class__ is not BoolV: ok = False; break
                d = self.dom[var]
                if r.v.__class__ is bool:
                    if r.v: tmask |= d
                elif r.v.var == var:
                    tmask |= d & sym.mask_of(r.v.tid)
                else:
                    ok = False; break
                work.extend(self.pending)
        finally:
            (self.decisions, self.dpos, self.pending, self.dom, self.multi, self.entangled, self.trace,
             self.pruned, self.zsolver, self.zdom_added, self.zmulti_added, self.steps, self.ndec, self.depth) = saved
        return tmask if ok else -1

    def subexplore(self, thunk, max_paths=4000):
        """explore ALL paths of thunk() under the current path condition without committing to any of them.
        returns list of (list of branch-condition nodes added on that sub-path, result). The outer path state is restored."""
        base = (list(self.decisions), self.dpos, self.pending, dict(self.dom), list(self.multi), set(self.entangled),
                list(self.trace), list(self.pruned), self.nvars, dict(self.init_dom), self.depth, list(self.gstack))
        results = []
        work = [[]]
        try:
            while work:
                if len(results) > max_paths: raise Inconclusive('sub-exploration exceeds %d paths' % max_paths)
                dec = work.pop()
                self.decisions = list(dec); self.dpos = 0; self.pending = []
                self.dom = dict(base[3]); self.multi = list(base[4]); self.entangled = set(base[5])
                self.trace = list(base[6]); self.pruned = []; self.nvars = base[8]; self.init_dom = dict(base[9])
                self.depth = base[10]; self.gstack = list(base[11])
                self.zsolver = None
                try:
                    r = thunk()
                except Infeasible:
                    work.extend(self.pending); continue
                results.append((self.trace[len(base[6]):], r))
                work.extend(self.pending)
        finally:
            (self.decisions, self.dpos, self.pending, self.dom, self.multi, self.entangled, self.trace, self.pruned,
             self.nvars, self.init_dom, self.depth, self.gstack) = base
            self.zsolver = None
        return results

    def summarize_pure(self, f, arg):
        """f: fn(u8) -> bool, arg unary: fold all internal paths into one unary node"""
        key = (self.P.name, f.name, arg.v.tid)
        res = self.summary_cache.get(key)
        if res is None:
            res = self.summarize_generic(lambda node: self.call_func(f, [IntV(8, node)]), arg.v)
            self.summary_cache[key] = res
        if res == -1: return None
        import numpy as np
        tab = np.array([(res >> i) & 1 for i in range(256)], dtype=bool)
        node = N(0, arg.v.var, sym.intern(tab), 'Summ', (f.name, arg.v))
        node._z = sym.zmask(sym.zvar(arg.v.var), res)
        return BoolV(node)

    def call_func(self, f, args):
        comp = f.compiled
        if comp is None: comp = self.compile_func(f)
        fr = [UNINIT] * f.nlocals
        i = 1
        for a in args: fr[i] = a; i += 1
        self.depth += 1
        if self.depth > 200: raise Panic('recursion', 'call depth exceeded')
        bb = 'bb0'
        try:
            while True:
                stmts, term = comp[bb]
                self.steps += len(stmts) + 1
                if self.steps > self.fuel: raise Panic('fuel', 'step budget exceeded (non-termination?)')
                for st in stmts:
                    st(fr)
                k = term[0]
                if k == 'goto': bb = term[1]
                elif k == 'switch':
                    bb = self.switch(term[1](fr), term[2], term[3])
                elif k == 'return':
                    return fr[0]
                elif k == 'call':
                    _, dest, path, ops, nxt = term
                    r = self.call_path(path, [o(fr) for o in ops])
                    if nxt is None: raise Panic('diverge', 'diverging call returned: ' + path)
                    if dest is not None: self.write_place(fr, dest, r)
                    bb = nxt
                elif k == 'callv':
                    _, dest, fop, ops, nxt = term
                    fv = fop(fr)
                    r = self.call_path(fv.name, [o(fr) for o in ops])
                    if dest is not None: self.write_place(fr, dest, r)
                    bb = nxt
                elif k == 'assert':
                    _, neg, op, msg, nxt = term
                    c = op(fr)
                    if neg: c = self.unop('Not', c)
                    if not self.branch_bool(c): raise Panic('assert', msg)
                    bb = nxt
                elif k == 'drop':
                    _, local, nxt = term
                    ty = f.locals.get('_%d' % local, '')
                    tn = re.match(r'^(?:[\w:]*::)?(\w+)', ty)
                    d = self.drop_impls.get(tn.group(1)) if tn else None
                    if d is not None and fr[local] is not UNINIT:
                        self.call_func(d, [Ref(fr, (local,), None, 'local')])
                    bb = nxt
                elif k == 'unreachable':
                    raise Panic('unreachable', 'reached MIR unreachable in ' + f.name)
                else:
                    raise Unsupported('terminator ' + str(term))
        except Unsupported as e:
            if not getattr(e, 'ctx', None):
                e.ctx = f'{f.name} {bb}'; e.args = (str(e) + ' @ ' + e.ctx,)
            raise
        finally:
            self.depth -= 1

    def compile_func(self, f):
        comp = {}
        for bb, blk in f.blocks.items():
            stmts = []
            for st in blk[:-1]:
                c = self.compile_stmt(st, f, bb)
                if c is not None: stmts.append(c)
            comp[bb] = (stmts, self.compile_term(blk[-1], f, bb))
        f.compiled = comp
        return comp

    def _lazy_unsupported(self, e, ctx):
        msg = str(e) + ' @ ' + ctx

        def f(fr): raise Unsupported(msg)
        return f

    def compile_stmt(self, st, f, bb):
        if st.startswith(NOOPS): return None
        m = re.match(r'^discriminant\((.*)\) = (\d+);$', st)
        if m:
            raise_ = self._lazy_unsupported(Unsupported('SetDiscriminant'), f'{f.name} {bb}: {st}')
            return raise_
        m = re.match(r'^(.*?) = (.*);$', st)
        if not m: return self._lazy_unsupported(Unsupported('stmt'), f'{f.name} {bb}: {st}')
        try:
            place = self.parse_place(m.group(1)); rv = self.compile_rvalue(m.group(2))
        except Unsupported as e:
            return self._lazy_unsupported(e, f'{f.name} {bb}: {st}')
        if not place[1]:
            b = place[0]

            def c(fr): fr[b] = rv(fr)
        else:
            def c(fr): self.write_place(fr, place, rv(fr))
        return c

    def compile_term(self, t, f, bb):
        ctx = f'{f.name} {bb}: {t}'
        try:
            if t == 'return;': return ('return',)
            m = re.match(r'^goto -> (bb\d+);$', t)
            if m: return ('goto', m.group(1))
            m = re.match(r'^switchInt\((.*)\) -> \[(.*)\];$', t)
            if m:
                tg = [x.split(': ') for x in m.group(2).split(', ')]
                vals = tuple((int(v), b) for v, b in tg if v != 'otherwise')
                other = [b for v, b in tg if v == 'otherwise']
                return ('switch', self.compile_operand(m.group(1)), vals, other[0] if other else None)
            m = re.match(r'^assert\((!?)(.*?), "(.*)\) -> \[success: (bb\d+), unwind.*\];$', t)
            if m:
                return ('assert', bool(m.group(1)), self.compile_operand(m.group(2)), m.group(3)[:80], m.group(4))
            m = re.match(r'^drop\((.*)\) -> \[return: (bb\d+), unwind.*\];$', t)
            if m:
                pl = self.parse_place(m.group(1))
                if pl[1]: raise Unsupported('drop of projection')
                return ('drop', pl[0], m.group(2))
            m = re.match(r'^(.*?) = (.*)\((.*)\) -> \[return: (bb\d+), unwind.*\];$', t) or \
                re.match(r'^(.*?) = (.*)\((.*)\) -> (unwind).*;$', t)
            if m:
                dest = self.parse_place(m.group(1)); callee = m.group(2); nxt = m.group(4)
                if nxt == 'unwind': nxt = None
                ops = [self.compile_operand(a) for a in split_top(m.group(3))]
                if callee.startswith(('move _', 'copy _')):
                    return ('callv', dest, self.compile_operand(callee), ops, nxt)
                return ('call', dest, callee, ops, nxt)
            if t == 'unreachable;': return ('unreachable',)
            if t.startswith('resume') or t.startswith('terminate') or t.startswith('unwind'): return ('unreachable',)
            raise Unsupported('terminator')
        except Unsupported as e:
            msg = str(e) + ' @ ' + ctx
            return ('switch', self._lazy_unsupported(e, ctx), (), None)

    def switch(self, d, vals, other):
        if d.__class__ is BoolV: d = self.cast(d, 'u8', 'IntToInt')
        if d.__class__ is EnumV: d = d.idx if d.idx.__class__ is IntV else IntV(self.PW, d.idx, True)
        if d.conc():
            x = sx(d) if d.s else d.v
            for v, b in vals:
                if v == x or (v & ((1 << d.w) - 1)) == d.v: return b
            if other is None: raise Panic('unreachable', 'switchInt without matching arm')
            return other
        n = d.v; groups = {}; order = []
        for v, b in vals:
            c = sym.binop('Eq', n, v & ((1 << d.w) - 1), d.w, False)
            if b in groups: groups[b] = sym.boolop('Or', groups[b], c)
            else: groups[b] = c; order.append(b)
        if other is not None:
            oc = None
            for v, b in vals:
                c = sym.binop('Ne', n, v & ((1 << d.w) - 1), d.w, False)
                oc = c if oc is None else sym.boolop('And', oc, c)
            if other in groups: groups[other] = sym.boolop('Or', groups[other], oc)
            else: groups[other] = oc; order.append(other)
        if len(order) == 1: return order[0]
        k = self.decide([groups[b] for b in order])
        return order[k]

    # ------------------------------------------------------------ leaves
    def path_condition_z3(self):
        cs = [sym.zmask(sym.zvar(v), m) for v, m in self.dom.items() if m != MASK256]
        cs += [sym.zexpr(c) for c in self.multi]
        return cs

    def model_count(self):
        """number of variable assignments on this path if the path condition is a product of per-variable sets"""
        if self.multi: return None
        c = 1
        for v, m in self.dom.items(): c *= bin(m).count('1')
        return c

    def witness(self, prefer=None):
        """a concrete assignment var -> int satisfying the path condition (+ optional extra z3 constraint)"""
        if not self.multi and prefer is None:
            out = {}
            for v, m in self.dom.items():
                out[v] = pick_nice(m)
            return out
        s = z3.Solver()
        for c in self.path_condition_z3(): s.add(c)
        if prefer is not None: s.add(prefer)
        self.nz3 += 1
        r = s.check()
        if r != z3.sat:
            if r == z3.unsat: return None
            raise Inconclusive('solver unknown in witness')
        mdl = s.model(); out = {}
        for v, m in self.dom.items():
            val = mdl.eval(sym.zvar(v), model_completion=False)
            if z3.is_bv_value(val): out[v] = val.as_long()
            else:
                # unconstrained in the model: any value of the domain that keeps multi constraints... ask again pinned
                out[v] = None
        free = [v for v, x in out.items() if x is None]
        if free:
            for v in free:
                if v not in self.entangled: out[v] = pick_nice(self.dom[v])
            rest = [v for v in free if out[v] is None]
            if rest:
                val = {v: mdl.eval(sym.zvar(v), model_completion=True).as_long() for v in rest}
                out.update(val)
        return out


NICE = [ord(c) for c in "aZ0:/ .-_\n\r\t;"]


def pick_nice(m):
    for c in NICE:
        if (m >> c) & 1: return c
    for c in range(0x21, 0x7f):
        if (m >> c) & 1: return c
    lo = (m & -m).bit_length() - 1
    return lo
