"""Harness layer: builds the symbolic call state for each public entry point, runs the implementation's MIR
and the reference model's MIR on the same symbolic buffer, and extracts comparable observations."""
import os, re
import z3
from . import mir as mirmod, sym, build, models
from .engine import (Engine, Program, IntV, BoolV, AddrV, Ref, EnumV, FnV, UNINIT, UNIT, Panic, Unsupported,
                     Infeasible, Inconclusive, nav, sx)

FLAG_NAMES = ['allow_spaces_after_header_name_in_responses', 'allow_obsolete_multiline_headers_in_responses',
              'allow_multiple_spaces_in_request_line_delimiters', 'allow_multiple_spaces_in_response_status_delimiters',
              'allow_space_before_first_header_name', 'ignore_invalid_headers_in_responses',
              'ignore_invalid_headers_in_requests']
FLAG_SHORT = ['sp_after_name', 'obs_fold', 'multi_sp_req', 'multi_sp_resp', 'sp_before_first', 'ignore_resp', 'ignore_req']
REQ_FLAGS = [2, 4, 6]       # indices of flags documented to affect requests
RESP_FLAGS = [0, 1, 3, 4, 5]

_PROGRAM_CACHE = {}


def load_program(variant):
    """Program for a build variant of /repo's current tree (or 'ref')"""
    if variant == 'ref':
        path = build.get_ref_mir(); src_dir = os.path.join(build.VERIF, 'refmodel')
        srcs = [open(os.path.join(src_dir, 'src/lib.rs')).read()]
    else:
        path = build.get_mir(variant); src_dir = build.REPO
        srcs = []
        for d, _, fs in os.walk(os.path.join(src_dir, 'src')):
            for f in sorted(fs):
                if f.endswith('.rs'): srcs.append(open(os.path.join(d, f)).read())
    key = (variant, path)
    if key in _PROGRAM_CACHE: return _PROGRAM_CACHE[key]
    M = mirmod.parse_mir(open(path).read())
    enums = mirmod.parse_enums(srcs)
    P = Program(variant, M, src_dir, enums)
    P.structs = mirmod.parse_structs(srcs)
    P.mir_path = path
    _PROGRAM_CACHE[key] = P
    return P


def make_engine(variants, with_ref=True):
    pw = 32 if any(v.startswith('i686') for v in variants) else 64
    E = Engine(ptr_width=pw, models=models.MODELS)
    for v in variants: E.add_program(load_program(v))
    if with_ref: E.add_program(load_program('ref'))
    E.use(variants[0])
    return E


class Scenario:
    """one symbolic parse call: buffer = prefix + nsym symbolic bytes + suffix"""
    def __init__(self, kind, api='cfg', prefix=b'', nsym=0, suffix=b'', flags=None, cap=1, cells='sentinel',
                 variant='swar-rel', fixed=None):
        self.kind = kind; self.api = api; self.prefix = bytes(prefix); self.nsym = nsym; self.suffix = bytes(suffix)
        # flags: list of 7 entries: False / True / 'sym'
        self.flags = list(flags) if flags is not None else [False] * 7
        self.cap = cap; self.cells = cells; self.variant = variant
        self.fixed = fixed or {}      # symbolic index -> allowed byte set (restricts a symbolic byte; stated in evidence)

    def key(self):
        return (self.kind, self.api, self.prefix.hex(), self.nsym, self.suffix.hex(),
                ''.join('s' if f == 'sym' else ('1' if f else '0') for f in self.flags), self.cap, self.cells, self.variant)

    def describe(self):
        fl = ','.join(f"{FLAG_SHORT[i]}={'*' if f == 'sym' else int(f)}" for i, f in enumerate(self.flags) if f)
        return f"{self.kind}/{self.api}@{self.variant} {self.prefix!r}+{self.nsym}sym+{self.suffix!r} cap={self.cap} {self.cells} [{fl}]"

    def total_len(self): return len(self.prefix) + self.nsym + len(self.suffix)


class Inst:
    """instantiated scenario on an engine path"""
    pass


def instantiate(E, sc):
    I = Inst(); I.sc = sc
    I.buf = [IntV(8, b) for b in sc.prefix]
    I.symvars = []
    for i in range(sc.nsym):
        mask = sym.MASK256
        if i in sc.fixed:
            mask = 0
            for b in sc.fixed[i]: mask |= 1 << b
        v = E.new_var(mask, 'b%d' % (len(sc.prefix) + i)); I.symvars.append(v)
        I.buf.append(IntV(8, sym.var_node(v)))
    I.buf += [IntV(8, b) for b in sc.suffix]
    I.cpu = install_cpu(E) if sc.variant.startswith('x86-rt') or getattr(sc, 'with_cpu', False) else None
    I.flagvars = {}; I.flags = []
    for i, f in enumerate(sc.flags):
        if f == 'sym':
            v = E.new_var(3, FLAG_SHORT[i]); I.flagvars[i] = v; I.flags.append(BoolV(sym.flag_node(v)))
        else: I.flags.append(BoolV(bool(f)))
    return I


def concrete_input(I, wit):
    """(flags_bits, bytes) for a witness assignment var->int"""
    sc = I.sc
    data = bytearray(sc.prefix)
    for v in I.symvars: data.append(wit.get(v, 0x61) if wit.get(v) is not None else 0x61)
    data += sc.suffix
    bits = 0
    for i, f in enumerate(sc.flags):
        if f == 'sym':
            if wit.get(I.flagvars[i], 0): bits |= 1 << i
        elif f: bits |= 1 << i
    return bits, bytes(data)


def make_cells(E, sc, tag='old'):
    if sc.cells == 'uninit' or sc.api in ('uninit', 'cfg_uninit'):
        return [UNINIT for _ in range(sc.cap)]
    return [[Ref([f'{tag}name{i}'], (0,), 4, f'{tag}{i}'), Ref([f'{tag}val{i}'], (0,), 8, f'{tag}{i}')] for i in range(sc.cap)]


def install_cpu(E):
    """Environment of the runtime dispatcher (C13 thread timing, C01/C12 dispatch safety).
    CPU features are two arbitrary booleans fixed for the process.  The shared cache cell is modelled for ALL interleavings
    of any number of threads running the same code: before every atomic operation the environment may have set the cell to
    any value of the reachable set R = {initial 0} + {every value any path of the dispatch code can store}, computed as a
    fixpoint by exploring the dispatcher with loads from the current R.  Once this thread has stored or seen a non-initial
    value, the initial value is excluded unless the code itself stores it."""
    cpu = {'avx2': E.new_flag('cpu_avx2'), 'sse42': E.new_flag('cpu_sse42'), 'stores': [], 'bad': [], 'kind': None, 'noninit': False, 'R': None, 'nsched': 0}
    E.cpu = cpu

    def kind():
        if cpu['kind'] is None:
            a = E.branch_bool(cpu['avx2']); s2 = E.branch_bool(cpu['sse42'])
            cpu['kind'] = (a, s2)
        return cpu['kind']

    def feature(path):
        k = kind()
        if 'avx2' in path: return BoolV(k[0])
        if 'sse4.2' in path or 'sse42' in path or 'sse4_2' in path: return BoolV(k[1])
        raise Unsupported('cpu feature ' + path)

    def reach():
        if cpu['R'] is None:
            cpu['R'] = cell_reachable(E, kind())
        return cpu['R']

    def env_value():
        """the cell as this thread finds it now: any reachable value (scheduling choice)"""
        R = reach()
        vals = [v for v in R if not (cpu['noninit'] and v == 0 and 0 not in R[1:])] or R
        if len(vals) == 1: v = vals[0]
        else:
            cpu['nsched'] += 1
            sv = E.new_var((1 << len(vals)) - 1, 'sched%d' % cpu['nsched'])
            v = vals[E.concretize(IntV(8, sym.var_node(sv)), 0, len(vals) - 1).v]
        if v != 0: cpu['noninit'] = True
        return v

    def did_store(val):
        if not val.conc(): raise Unsupported('symbolic value stored into the runtime feature cell')
        cpu['stores'].append(val.v); cpu['noninit'] = True

    def load(a): return IntV(8, env_value())

    def store(a): did_store(a[1])

    def rmw(path, a):
        cur = env_value(); name = path.split('::')[-1]
        if name.startswith('compare_exchange'):
            exp, new = a[1], a[2]
            if not exp.conc(): raise Unsupported('symbolic compare_exchange operand')
            if cur == exp.v:
                did_store(new); return EnumV('Result', 'Ok', 0, [IntV(8, cur)])
            return EnumV('Result', 'Err', 1, [IntV(8, cur)])
        new = {'swap': lambda: a[1].v, 'fetch_or': lambda: cur | a[1].v, 'fetch_and': lambda: cur & a[1].v, 'fetch_max': lambda: max(cur, a[1].v),
               'fetch_min': lambda: min(cur, a[1].v), 'fetch_add': lambda: (cur + a[1].v) & 255, 'fetch_sub': lambda: (cur - a[1].v) & 255,
               'fetch_xor': lambda: cur ^ a[1].v}.get(name)
        if new is None: raise Unsupported('atomic operation ' + path)
        did_store(IntV(8, new())); return IntV(8, cur)
    E.hooks['feature'] = feature; E.hooks['atomic_load'] = load; E.hooks['atomic_store'] = store; E.hooks['atomic_rmw'] = rmw
    return cpu


def cell_reachable(E, kind):
    """fixpoint of the values the dispatch code can leave in its cache cell on a CPU of this kind; cached per program"""
    cache = E.P.__dict__.setdefault('_cell_reach', {})
    if kind in cache: return cache[kind]
    entries = [f for n, f in E.funcs.items() if re.search(r'::match_(uri|header_value|header_name)_vectored$', n) and not n.startswith(('swar::', 'sse42::', 'avx2::', 'neon::'))]
    if not entries: raise Unsupported('no runtime dispatcher in this build')
    R = [0]
    for _ in range(8):
        stores = set()
        saved_hooks = dict(E.hooks); saved_cpu = getattr(E, 'cpu', None)

        def thunk_for(f):
            def thunk():
                st = {'noninit': False, 'n': 0}

                def envv():
                    vals = [v for v in R if not (st['noninit'] and v == 0 and 0 not in R[1:])] or R
                    if len(vals) == 1: v = vals[0]
                    else:
                        st['n'] += 1
                        sv = E.new_var((1 << len(vals)) - 1, 'fsched')
                        v = vals[E.concretize(IntV(8, sym.var_node(sv)), 0, len(vals) - 1).v]
                    if v != 0: st['noninit'] = True
                    return v

                def ds(val):
                    if not val.conc(): raise Unsupported('symbolic value stored into the runtime feature cell')
                    stores.add(val.v); st['noninit'] = True
                E.hooks['feature'] = lambda path: BoolV(kind[0]) if 'avx2' in path else BoolV(kind[1])
                E.hooks['atomic_load'] = lambda a: IntV(8, envv())
                E.hooks['atomic_store'] = lambda a: ds(a[1])

                def rmw(path, a):
                    cur = envv(); name = path.split('::')[-1]
                    if name.startswith('compare_exchange'):
                        if cur == a[1].v: ds(a[2]); return EnumV('Result', 'Ok', 0, [IntV(8, cur)])
                        return EnumV('Result', 'Err', 1, [IntV(8, cur)])
                    if name == 'swap': ds(a[1]); return IntV(8, cur)
                    if name.startswith('fetch_'):
                        op = {'fetch_or': cur | a[1].v, 'fetch_and': cur & a[1].v, 'fetch_max': max(cur, a[1].v), 'fetch_min': min(cur, a[1].v),
                              'fetch_add': (cur + a[1].v) & 255, 'fetch_sub': (cur - a[1].v) & 255, 'fetch_xor': cur ^ a[1].v}.get(name)
                        if op is None: raise Unsupported('atomic operation ' + path)
                        ds(IntV(8, op)); return IntV(8, cur)
                    raise Unsupported('atomic operation ' + path)
                E.hooks['atomic_rmw'] = rmw
                bv = E.call_func(E.by_method[(None, 'Bytes', 'new')], [Ref([], (0,), 0, 'buf')]); box = [bv]
                try:
                    E.call_func(f, [Ref(box, (0,), None, 'local')])
                except Panic:
                    pass       # failures are reported by the real runs, not by the reachability pre-pass
                return None
            return thunk
        try:
            for f in entries: E.subexplore(thunk_for(f))
        finally:
            E.hooks.clear(); E.hooks.update(saved_hooks)
        newR = sorted(set(R) | stores)
        if newR == sorted(R): break
        R = [0] + [v for v in newR if v != 0]
    cache[kind] = R
    return R


class Obs:
    __slots__ = ('status', 'n', 'fields', 'headers', 'hdr_ref', 'hdr_len', 'cells', 'panic', 'raw', 'size', 'val')

    def __init__(self):
        self.status = None; self.n = None; self.fields = {}; self.headers = []; self.hdr_ref = None; self.hdr_len = None
        self.cells = None; self.panic = None; self.raw = None; self.size = None; self.val = None

    def summary(self):
        return (self.status, self.n, tuple(sorted((k, repr(v)) for k, v in self.fields.items())),
                tuple(repr(h) for h in self.headers))


def slice_loc(r, buf):
    """(in_buf, off, len, alloc) for a slice Ref"""
    if r.__class__ is not Ref: raise Unsupported('field is not a slice: ' + repr(r))
    c, k = nav(r)
    return (c is buf, k, r.meta, r.alloc)


def status_of(E, res):
    """Result<Status<T>, Error> -> (status string, payload)"""
    if res.var == 'Err':
        e = res.fields[0]
        if e.__class__ is EnumV: return 'E:' + e.var, None
        return 'E:InvalidChunkSize', None
    st = res.fields[0]
    if st.var == 'Partial': return 'P', None
    return 'C', st.fields[0]


def headers_obs(E, ref, buf):
    """list of per-header (name_loc, value_loc) | 'old:k' | 'uninit' for a &[Header] Ref"""
    c, k = nav(ref); out = []
    for i in range(ref.meta):
        if k + i >= len(c): raise Panic('oob', 'headers slice extends past the caller array')
        cell = c[k + i]
        if cell is UNINIT: out.append('uninit'); continue
        nm, val = cell[0], cell[1]
        if nm.alloc and str(nm.alloc).startswith(('old', 'pre')): out.append(str(nm.alloc)); continue
        out.append((slice_loc(nm, buf), slice_loc(val, buf)))
    return out


def run_impl(E, I, variant=None, api=None, buflen=None, cells=None, pre=None, flags=None):
    """run the implementation entry point of scenario I.sc on the current path. returns Obs.
    buflen: parse only the first buflen bytes (streaming checks). pre: pre-state for Request/Response (C18)."""
    sc = I.sc
    variant = variant or sc.variant; api = api or sc.api
    flags = flags if flags is not None else I.flags
    prev = E.use(variant)
    try:
        n = len(I.buf) if buflen is None else buflen
        bufref = Ref(I.buf, (0,), n, 'buf')
        o = Obs()
        if cells is None: cells = make_cells(E, sc)
        o.cells = cells
        S = E.P.structs
        try:
            if sc.kind == 'chunk':
                res = E.call_func(E.funcs['parse_chunk_size'], [bufref])
                o.raw = res
                o.status, pay = status_of(E, res)
                if o.status == 'C': o.n = pay[0].v; o.size = pay[1]
                return o
            if sc.kind == 'headers':
                res = E.call_func(E.funcs['parse_headers'], [bufref, Ref(cells, (0,), len(cells), 'hdr')])
                o.status, pay = status_of(E, res)
                if o.status == 'C':
                    o.n = pay[0].v; o.hdr_ref = pay[1]; o.hdr_len = pay[1].meta
                    o.headers = headers_obs(E, pay[1], I.buf)
                return o
            cfg_fields = S['ParserConfig']
            cfg = [None] * len(cfg_fields)
            for i, nm in enumerate(FLAG_NAMES): cfg[cfg_fields.index(nm)] = flags[i]
            if any(c is None for c in cfg): raise Unsupported('ParserConfig has fields the harness does not know: ' + str(cfg_fields))
            ty = 'Request' if sc.kind == 'req' else 'Response'
            fields = S[ty]
            uninit = api in ('uninit', 'cfg_uninit')
            if pre is not None: val = pre
            else:
                val = [EnumV('Option', 'None', 0, []) for _ in fields]
                val[fields.index('headers')] = Ref([], (0,), 0, 'empty') if uninit else Ref(cells, (0,), len(cells), 'hdr')
            box = [val]; vref = Ref(box, (0,), None, 'local')
            cbox = [cfg]; cref = Ref(cbox, (0,), None, 'local')
            hdrs_before = val[fields.index('headers')]
            if api == 'parse':
                f = E.by_method[(None, ty, 'parse')]; args = [vref, bufref]
            elif api == 'cfg':
                f = E.by_method[(None, 'ParserConfig', 'parse_request' if sc.kind == 'req' else 'parse_response')]
                args = [cref, vref, bufref]
            elif api == 'uninit':
                f = E.by_method[(None, ty, 'parse_with_uninit_headers')]
                args = [vref, bufref, Ref(cells, (0,), len(cells), 'hdr')]
            else:
                f = E.by_method[(None, 'ParserConfig', ('parse_request' if sc.kind == 'req' else 'parse_response') + '_with_uninit_headers')]
                args = [cref, vref, bufref, Ref(cells, (0,), len(cells), 'hdr')]
            res = E.call_func(f, args)
            o.status, pay = status_of(E, res)
            if o.status == 'C': o.n = pay.v
            val = box[0]; o.val = val
            for nm in fields:
                v = val[fields.index(nm)]
                if nm == 'headers':
                    o.hdr_ref = v; o.hdr_len = v.meta
                    o.headers = headers_obs(E, v, I.buf)
                    o.fields['headers_same_as_before'] = (v.root is hdrs_before.root and v.path == hdrs_before.path and v.meta == hdrs_before.meta)
                elif v.var == 'None': o.fields[nm] = None
                else:
                    x = v.fields[0]
                    o.fields[nm] = slice_loc(x, I.buf) if x.__class__ is Ref else x
            return o
        except Panic as e:
            o.panic = e; o.status = 'PANIC'
            return o
    finally:
        E.use(prev)


# ------------------------------------------------------------------ reference model runs
def _ref_struct(E, val, name):
    fs = E.P.structs[name]
    return {f: val[i] for i, f in enumerate(fs)}


def ref_opts(E, I, kind, flags=None):
    fl = flags if flags is not None else I.flags
    F = BoolV(False)
    if kind == 'req': d = {'spaces_after_name': F, 'folding': F, 'space_before_first': fl[4], 'ignore_invalid': fl[6]}
    elif kind == 'resp': d = {'spaces_after_name': fl[0], 'folding': fl[1], 'space_before_first': fl[4], 'ignore_invalid': fl[5]}
    else: d = {'spaces_after_name': F, 'folding': F, 'space_before_first': F, 'ignore_invalid': F}
    return [d[f] for f in E.P.structs['Opts']]


def cv(x):
    """concrete python value of IntV/BoolV (the reference's bookkeeping values are concrete on every path)"""
    if x.__class__ is BoolV:
        if x.conc(): return x.v
        raise Unsupported('reference model produced a symbolic bool')
    if x.conc(): return x.v
    return x


def run_ref(E, I, buflen=None, cap=None, flags=None, default_cfg=False):
    """run the reference model on the same symbolic buffer; returns dict"""
    sc = I.sc
    prev = E.use('ref')
    try:
        n = len(I.buf) if buflen is None else buflen
        bufref = Ref(I.buf, (0,), n, 'buf')
        cap = sc.cap if cap is None else cap
        fl = [BoolV(False)] * 7 if (default_cfg or sc.api in ('parse', 'uninit')) else (flags if flags is not None else I.flags)
        capv = IntV(E.PW, cap)
        if sc.kind == 'chunk':
            r = _ref_struct(E, E.call_func(E.funcs['ref_chunk'], [bufref]), 'Chunk')
            return {'kind': cv(r['kind']), 'n': cv(r['n']), 'size': r['size'], 'digits': cv(r['digits'])}
        if sc.kind == 'headers':
            ob = [ref_opts(E, I, 'headers', fl)]
            r = _ref_struct(E, E.call_func(E.funcs['ref_headers'], [bufref, Ref(ob, (0,), None, 'local'), capv]), 'Out')
            return {'kind': cv(r['kind']), 'n': cv(r['n']), 'count': cv(r['count']), 'h': _hdrs(E, r['h'], cv(r['count']))}
        cfgs = E.P.structs['Cfg']
        d = {'multi': fl[2] if sc.kind == 'req' else fl[3], 'o': ref_opts(E, I, sc.kind, fl)}
        cb = [[d[f] for f in cfgs]]
        if sc.kind == 'req':
            r = _ref_struct(E, E.call_func(E.funcs['ref_request'], [bufref, Ref(cb, (0,), None, 'local'), capv]), 'Req')
            out = {'kind': cv(r['kind']), 'n': cv(r['n']), 'count': cv(r['count']), 'hdr_start': cv(r['hdr_start'])}
            out['method'] = (cv(r['mo']), cv(r['ml'])) if cv(r['has_method']) else None
            out['path'] = (cv(r['to']), cv(r['tl'])) if cv(r['has_path']) else None
            out['version'] = cv(r['ver']) if cv(r['has_ver']) else None
            out['h'] = _hdrs(E, r['h'], out['count'])
            return out
        r = _ref_struct(E, E.call_func(E.funcs['ref_response'], [bufref, Ref(cb, (0,), None, 'local'), capv]), 'Resp')
        out = {'kind': cv(r['kind']), 'n': cv(r['n']), 'count': cv(r['count']), 'hdr_start': cv(r['hdr_start'])}
        out['version'] = cv(r['ver']) if cv(r['has_ver']) else None
        out['code'] = (r['d0'], r['d1'], r['d2']) if cv(r['has_code']) else None
        out['reason'] = (('static', 0, 0) if cv(r['rstatic']) else ('buf', cv(r['ro']), cv(r['rl']))) if cv(r['has_reason']) else None
        out['h'] = _hdrs(E, r['h'], out['count'])
        return out
    finally:
        E.use(prev)


def _hdrs(E, harr, count):
    fs = E.P.structs['Hdr']; out = []
    for i in range(min(count, len(harr))):
        d = {f: cv(harr[i][j]) for j, f in enumerate(fs)}
        out.append((d['no'], d['nl'], d['vo'], d['vl']))
    return out


def ref_head_end(E, I, buflen=None):
    sc = I.sc; prev = E.use('ref')
    try:
        n = len(I.buf) if buflen is None else buflen
        bufref = Ref(I.buf, (0,), n, 'buf')
        if sc.kind == 'headers': r = E.call_func(E.funcs['first_empty_line'], [bufref, IntV(E.PW, 0)])
        else: r = E.call_func(E.funcs['head_end_message'], [bufref])
        return cv(r[0]), cv(r[1])
    finally:
        E.use(prev)


KIND_NAMES = {100: 'C', 101: 'P', 0: 'E:HeaderName', 1: 'E:HeaderValue', 2: 'E:NewLine', 3: 'E:Status', 4: 'E:Token',
              5: 'E:TooManyHeaders', 6: 'E:Version', 7: 'E:InvalidChunkSize'}


def check_ref_kind_numbering(E):
    """the reference's error numbering must follow the declaration order of httparse::Error in this tree"""
    for p in E.programs.values():
        if p.name == 'ref': continue
        err = p.ENUMS.get('Error')
        want = [KIND_NAMES[i][2:] for i in range(7)]
        if err != want:
            raise Unsupported(f'httparse::Error variants {err} differ from the reference numbering {want}')


def code_value_z3(E, digits):
    """z3 u16 term 100*d0+10*d1+d2 from the reference's three digit values (u8, value 0..9)"""
    def z(v):
        x = z3.BitVecVal(v.v, 8) if v.conc() else sym.zexpr(v.v)
        return z3.ZeroExt(8, x)
    return z(digits[0]) * 100 + z(digits[1]) * 10 + z(digits[2])


def compare_with_ref(E, I, o, r):
    """returns (list of concrete mismatch strings, list of (description, z3 'violated' expr))"""
    mism = []; zq = []
    sc = I.sc
    if o.status == 'PANIC':
        return [f'implementation panics/UB: {o.panic}'], []
    rk = KIND_NAMES[r['kind']]
    if rk != o.status: mism.append(f'status: impl {o.status} vs reference {rk}')
    if o.status != 'C' and rk != 'C':
        # start-line fields reported so far must agree too (C02/C06/C07 use them on Partial)
        pass
    if o.status == 'C' and rk == 'C':
        if o.n != r['n']: mism.append(f"n: impl {o.n} vs reference {r['n']}")
    if sc.kind == 'chunk':
        if o.status == 'C' and rk == 'C':
            a, b = o.size, r['size']
            if a.conc() and b.conc():
                if a.v != b.v: mism.append(f'size: impl {a.v} vs reference {b.v}')
            else:
                za = z3.BitVecVal(a.v, 64) if a.conc() else sym.zexpr(a.v)
                zb = z3.BitVecVal(b.v, 64) if b.conc() else sym.zexpr(b.v)
                zq.append(('chunk size differs from the exact value of the digits', za != zb))
        return mism, zq
    if sc.kind in ('req', 'resp') and (o.status == rk):
        names = ['method', 'path', 'version'] if sc.kind == 'req' else ['version', 'code', 'reason']
        for nm in names:
            iv = o.fields.get(nm); rv = r.get(nm)
            if (iv is None) != (rv is None):
                mism.append(f'{nm}: impl {"set" if iv is not None else "unset"} vs reference {"set" if rv is not None else "unset"} (status {o.status})')
                continue
            if iv is None: continue
            if nm == 'version':
                if not iv.conc() or iv.v != rv: mism.append(f'version: impl {iv} vs reference {rv}')
            elif nm == 'code':
                zi = z3.BitVecVal(iv.v, 16) if iv.conc() else sym.zexpr(iv.v)
                zq.append(('status code differs from the decimal value of its three digits', zi != code_value_z3(E, rv)))
            elif nm == 'reason':
                inb, off, ln, alloc = iv
                if rv[0] == 'static':
                    if ln != 0: mism.append(f'reason: impl slice len {ln} (in_buf={inb}, off={off}) vs reference ""')
                else:
                    if not inb or (off, ln) != (rv[1], rv[2]):
                        mism.append(f'reason: impl (in_buf={inb},{off},{ln}) vs reference ({rv[1]},{rv[2]})')
            else:
                inb, off, ln, alloc = iv
                if not inb or (off, ln) != rv: mism.append(f'{nm}: impl (in_buf={inb},{off},{ln}) vs reference {rv}')
    if o.status == 'C' and rk == 'C':
        if len(o.headers) != r['count']:
            mism.append(f"header count: impl {len(o.headers)} vs reference {r['count']}")
        else:
            for i, (ih, rh) in enumerate(zip(o.headers, r['h'])):
                if isinstance(ih, str): mism.append(f'header {i}: impl exposes {ih} cell'); continue
                (ninb, no, nl, _), (vinb, vo, vl, _) = ih
                if not ninb or (no, nl) != (rh[0], rh[1]): mism.append(f'header {i} name: impl (in_buf={ninb},{no},{nl}) vs reference ({rh[0]},{rh[1]})')
                if vl != rh[3] or (vl > 0 and (not vinb or vo != rh[2])):
                    mism.append(f'header {i} value: impl (in_buf={vinb},{vo},{vl}) vs reference ({rh[2]},{rh[3]})')
    return mism, zq
