"""Engine L: the cfg lattice of src/simd/mod.rs decided by z3 over boolean cfg atoms.
Every `#[cfg(<expr>)]` + the item it guards is parsed from the current source; obligations (validity for ALL assignments of
the atoms, arch atoms mutually exclusive): exactly one provider of each scanner is exported; every module an active item
refers to is itself active; no SIMD module is compiled without httparse_simd."""
import os, re, time
import z3

ATOMS = ['httparse_simd', 'httparse_simd_target_feature_sse42', 'httparse_simd_target_feature_avx2', 'httparse_simd_neon_intrinsics']
ARCHS = ['x86', 'x86_64', 'aarch64']
SCANNERS = ['match_uri_vectored', 'match_header_value_vectored', 'match_header_name_vectored']


def tokenize(s):
    return re.findall(r'[A-Za-z_][A-Za-z0-9_]*|"[^"]*"|[(),=]', s)


def parse_cfg(tokens, env):
    """recursive descent: all(..) any(..) not(..) ident  ident = "str" """
    def expr(i):
        t = tokens[i]
        if t in ('all', 'any', 'not') and tokens[i + 1] == '(':
            i += 2; args = []
            while tokens[i] != ')':
                e, i = expr(i); args.append(e)
                if tokens[i] == ',': i += 1
            i += 1
            if t == 'all': return (z3.And(args) if args else z3.BoolVal(True)), i
            if t == 'any': return (z3.Or(args) if args else z3.BoolVal(False)), i
            return z3.Not(args[0]), i
        if i + 1 < len(tokens) and tokens[i + 1] == '=':
            key = t; val = tokens[i + 2].strip('"')
            if key == 'target_arch':
                return (env['arch_' + val] if 'arch_' + val in env else z3.BoolVal(False)), i + 3
            nm = f'{key}={val}'
            env.setdefault(nm, z3.Bool(nm)); return env[nm], i + 3
        env.setdefault(t, z3.Bool(t)); return env[t], i + 1
    e, i = expr(0)
    return e


def parse_items(src):
    """[(cfg expr string or None, item text)] for top-level items of mod.rs"""
    items = []; i = 0; n = len(src); pending = []
    while i < n:
        m = re.compile(r'\s*(//[^\n]*\n)').match(src, i)
        if m: i = m.end(); continue
        m = re.compile(r'\s*#\[cfg\(').match(src, i)
        if m:
            j = m.end(); depth = 1
            while depth:
                if src[j] == '(': depth += 1
                elif src[j] == ')': depth -= 1
                j += 1
            pending.append(src[m.end():j - 1]); j = src.index(']', j) + 1; i = j; continue
        m = re.compile(r'\s*#\[[^\]]*\]').match(src, i)
        if m: i = m.end(); continue
        m = re.compile(r'\s*((?:pub(?:\([^)]*\))?\s+)?(?:mod|use)\s+[^;{]*)(;|\{)').match(src, i)
        if m:
            head = m.group(1).strip(); j = m.end()
            body = ''
            if m.group(2) == '{':
                depth = 1; k = j
                while depth:
                    if src[k] == '{': depth += 1
                    elif src[k] == '}': depth -= 1
                    k += 1
                body = src[j:k - 1]; j = k
            items.append((list(pending), head, body)); pending = []; i = j; continue
        if src[i:].strip() == '': break
        # unknown top-level text: skip a line
        nl = src.find('\n', i)
        i = n if nl < 0 else nl + 1
    return items


def analyse(repo):
    t0 = time.time()
    path = os.path.join(repo, 'src/simd/mod.rs')
    src = open(path).read()
    env = {}
    for a in ARCHS: env['arch_' + a] = z3.Bool('arch_' + a)
    items = parse_items(src)
    mods = {}; uses = []; inline_defs = {}
    for cfgs, head, body in items:
        cond = z3.And([parse_cfg(tokenize(c), env) for c in cfgs]) if cfgs else z3.BoolVal(True)
        m = re.match(r'(?:pub(?:\([^)]*\))?\s+)?mod\s+(\w+)', head)
        if m:
            name = m.group(1)
            mods[name] = z3.Or(mods[name], cond) if name in mods else cond
            if body:
                inline_defs[name] = (set(re.findall(r'pub fn (\w+)', body)), set(re.findall(r'(?:super|crate::simd)::(\w+)::', body)))
            continue
        m = re.match(r'pub\s+use\s+self::(\w+)::\*', head)
        if m: uses.append((m.group(1), cond)); continue
    # what each file-module defines / needs
    defs = {}; deps = {}
    simd_dir = os.path.join(repo, 'src/simd')
    for name in mods:
        if name in inline_defs: defs[name], deps[name] = inline_defs[name]; continue
        fp = os.path.join(simd_dir, name + '.rs')
        if os.path.exists(fp):
            t = re.sub(r'//[^\n]*', '', open(fp).read())
            t = t.split('#[test]')[0] if name != 'swar' else t
            defs[name] = set(re.findall(r'pub (?:unsafe )?fn (\w+)', t))
            deps[name] = set(re.findall(r'super::(\w+)(?:::|;)', t)) & set(mods)
        else:
            defs[name], deps[name] = set(), set()
    arch = [env['arch_' + a] for a in ARCHS]
    excl = z3.And([z3.Not(z3.And(arch[i], arch[j])) for i in range(3) for j in range(i + 1, 3)])
    obligations = []; results = []

    def valid(name, claim):
        s = z3.Solver(); s.add(excl); s.add(z3.Not(claim))
        r = s.check()
        ok = r == z3.unsat
        wit = None
        if r == z3.sat:
            m = s.model(); wit = {str(d): bool(m[d]) for d in m.decls()}
        results.append({'obligation': name, 'holds': ok, 'counterexample': wit, 'solver': str(r)})
        return ok
    for sc in SCANNERS:
        providers = [z3.And(cond, mods.get(mod, z3.BoolVal(False))) for mod, cond in uses if sc in defs.get(mod, set())]
        k = z3.Sum([z3.If(p, 1, 0) for p in providers]) if providers else z3.IntVal(0)
        valid(f'exactly one exported provider of {sc}', k == 1)
    for mod, cond in uses:
        valid(f'`pub use self::{mod}::*` only where `mod {mod}` is compiled', z3.Implies(cond, mods.get(mod, z3.BoolVal(False))))
    for mod, ds in deps.items():
        for d in ds:
            valid(f'mod {mod} refers to super::{d}, which must be compiled whenever {mod} is', z3.Implies(mods[mod], mods.get(d, z3.BoolVal(False))))
    for mod in mods:
        if mod == 'swar': continue
        valid(f'mod {mod} is never compiled without httparse_simd', z3.Implies(mods[mod], env.get('httparse_simd', z3.BoolVal(False))))
    # a std-only module (uses std:: / is_x86_feature_detected) must not be reachable in a no_std build: build.rs never sets
    # httparse_simd without the std feature -> checked on build.rs text: the CARGO_FEATURE_STD gate precedes every rustc-cfg line
    b = open(os.path.join(repo, 'build.rs')).read()
    es = b.find('fn enable_simd')
    gate = b.find('CARGO_FEATURE_STD', es)
    first_cfg = b.find('cargo:rustc-cfg', es)
    gate_ok = es >= 0 and 0 <= gate < first_cfg
    body = b[gate:first_cfg] if gate_ok else ''
    gate_ok = gate_ok and re.search(r'is_none\(\)\s*\{[^}]*return;', body) is not None
    results.append({'obligation': 'build.rs: enable_simd returns before emitting any cfg when CARGO_FEATURE_STD is unset (unconditionally)', 'holds': bool(gate_ok), 'counterexample': None if gate_ok else 'the std gate is missing, conditional, or after a rustc-cfg line', 'solver': 'text'})
    return {'items': len(items), 'modules': sorted(mods), 'results': results, 'wall_s': round(time.time() - t0, 2), 'atoms': sorted(k for k in env)}


if __name__ == '__main__':
    import json, sys
    print(json.dumps(analyse(sys.argv[1] if len(sys.argv) > 1 else '/repo'), indent=1))
