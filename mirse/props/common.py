"""Leaf-level assertion groups shared by the property checks.  Every group turns one property into
obligations on a path: concrete facts (offsets, lengths, statuses are concrete on a path) and z3 queries
over the path condition (byte classes, values).  All z3 obligations of a leaf are discharged in one query:
path condition AND (some obligation violated) must be unsat."""
import time
import z3
from .. import sym, harness
from ..engine import IntV, BoolV, Ref, EnumV, UNINIT, Panic, Unsupported, nav
from ..harness import Scenario, instantiate, run_impl, run_ref, compare_with_ref, concrete_input, KIND_NAMES


def mask_of_set(pred):
    m = 0
    for b in range(256):
        if pred(b): m |= 1 << b
    return m


# classes written out from the property texts (C05 / C12), not read from httparse's tables
TCHAR = mask_of_set(lambda b: chr(b).isalnum() and b < 128 or chr(b) in "!#$%&'*+-.^_`|~")
URICH = mask_of_set(lambda b: 0x21 <= b <= 0x7e or b >= 0x80)
REASONCH = mask_of_set(lambda b: b == 9 or b == 0x20 or 0x21 <= b <= 0x7e)
VALUECH = mask_of_set(lambda b: b == 9 or b == 0x20 or 0x21 <= b <= 0x7e or b >= 0x80)
WS = mask_of_set(lambda b: b in (9, 32))
DIGIT = mask_of_set(lambda b: 48 <= b <= 57)


def zbyte(cell):
    return z3.BitVecVal(cell.v, 8) if cell.conc() else sym.zexpr(cell.v)


# verdict queries (the unsat ones a 'holds' rests on) sampled for re-decision by cvc5 (thorough tier)
XSMT = {'every': 0, 'out': []}


class Leaf:
    def __init__(self, E, I, prop):
        self.E = E; self.I = I; self.prop = prop
        self.viol = []; self.zq = []; self.nobl = 0; self.pred = None

    def concrete(self, ok, msg, prop=None):
        self.nobl += 1
        if not ok: self.viol.append((prop or self.prop, msg, None))

    def zquery(self, msg, zviolated, prop=None):
        self.nobl += 1
        self.zq.append((prop or self.prop, msg, zviolated))

    def byte_in(self, cell, mask, msg, prop=None):
        """obligation: the byte is in the class for every input on this path"""
        if cell.conc():
            self.concrete(bool((mask >> cell.v) & 1), msg + f' (byte 0x{cell.v:02x})', prop)
        else:
            self.zquery(msg, z3.Not(sym.zmask(sym.zexpr(cell.v), mask)), prop)

    def finish(self, predicted):
        """discharge z3 obligations; returns list of violation records"""
        E = self.E; out = []
        self.pred = predicted
        wit0 = None
        for prop, msg, _ in self.viol:
            if wit0 is None: wit0 = E.witness()
            out.append(self.record(prop, msg, wit0))
        if self.zq:
            s = z3.Solver()
            for c in E.path_condition_z3(): s.add(c)
            s.add(z3.Or([q[2] for q in self.zq]))
            E.nz3 += 1
            r = s.check()
            if r == z3.unsat and XSMT['every'] and (hash(tuple(E.decisions)) % XSMT['every'] == 0) and len(XSMT['out']) < 150:
                XSMT['out'].append(s.to_smt2())
            if r == z3.sat:
                m = s.model()
                for prop, msg, zv in self.zq:
                    if z3.is_true(m.eval(zv, model_completion=True)):
                        wit = E.witness(prefer=zv)
                        if wit is not None: out.append(self.record(prop, msg, wit))
            elif r != z3.unsat:
                raise harness.Inconclusive('solver unknown on verdict query')
        return out

    def record(self, prop, msg, wit):
        I = self.I; sc = I.sc
        bits, data = concrete_input(I, wit)
        return {'prop': prop, 'msg': msg, 'scenario': sc.describe(), 'kind': sc.kind, 'api': sc.api, 'variant': sc.variant,
                'flags': bits, 'cap': sc.cap, 'buf': data.hex(), 'predicted': self.pred(wit) if callable(self.pred) else self.pred}


def entry_name(kind, api):
    if kind in ('chunk', 'headers'): return kind
    return {'parse': kind, 'cfg': kind + '_cfg', 'uninit': kind + '_uninit', 'cfg_uninit': kind + '_cfg_uninit'}[api]


def predicted_json(E, I, o):
    """serialisable prediction of the native observation, as a function of the witness"""
    def f(wit):
        def loc(t):
            if t is None: return None
            inb, off, ln, alloc = t
            return [off if inb else -1, ln]
        d = {'status': o.status, 'n': o.n or 0}
        for k, v in o.fields.items():
            if k == 'headers_same_as_before': continue
            if v is None: d[k] = None
            elif isinstance(v, tuple): d[k] = loc(v)
            elif v.__class__ is IntV:
                d[k] = v.v if v.conc() else sym.eval_node(v.v, {x: (wit.get(x) or 0) for x in sym.support(v.v)})
        if o.size is not None:
            d['size'] = o.size.v if o.size.conc() else sym.eval_node(o.size.v, {x: (wit.get(x) or 0) for x in sym.support(o.size.v)})
        hs = []
        for h in o.headers:
            if isinstance(h, str): hs.append('old' if h.startswith(('old', 'pre')) else h)
            else: hs.append([loc(h[0]), loc(h[1])])
        d['headers'] = hs
        if o.status == 'PANIC': d['panic'] = str(o.panic)
        return d
    return f


def outcome_label(o):
    return o.status if o.status != 'PANIC' else 'PANIC:' + o.panic.kind


def sample_of(E, I, o, extra=''):
    wit = E.witness()
    if wit is None: return None
    bits, data = concrete_input(I, wit)
    pc = []
    for v, m in sorted(E.dom.items()):
        if m != sym.MASK256 and m != E.init_dom.get(v):
            rs = sym.ranges_of_mask(m)
            pc.append(f"{E.varnames.get(v, 'v%d' % v)} in " + ','.join(f'{a:02x}' if a == b else f'{a:02x}-{b:02x}' for a, b in rs[:6]) + ('..' if len(rs) > 6 else ''))
    return {'path_condition': pc + [f'{len(E.multi)} multi-byte constraint(s)'] if E.multi else pc,
            'witness_buf': data.hex(), 'witness_flags': bits, 'outcome': outcome_label(o) + (f' n={o.n}' if o.n else '') + extra}


# ------------------------------------------------------------------ assertion groups
def assert_ref(L, E, I, o, r, only_err=False):
    """C06/C07/C08/C14 (and C10 with only_err): observable result equals the reference's"""
    if only_err and not (o.status.startswith('E:') or KIND_NAMES[r['kind']].startswith('E:') or o.status == 'PANIC'):
        return
    mism, zq = compare_with_ref(E, I, o, r)
    for m in mism: L.concrete(False, m)
    L.nobl += 1 if not mism else 0
    for d, q in zq: L.zquery(d, q)


def assert_safety(L, E, I, o):
    """C01: no panic / overflow / out-of-bounds / uninit read / runaway on this path"""
    L.concrete(o.status != 'PANIC', f'implementation does not return normally: {o.panic}')


def py_head_end(data, kind):
    """independent linear scan (C03) on concrete bytes; used by the native re-check"""
    n = len(data); pos = 0
    if kind != 'headers':
        while True:
            if pos >= n: return None
            if data[pos] == 10: pos += 1; continue
            if data[pos] == 13 and pos + 1 < n and data[pos + 1] == 10: pos += 2; continue
            break
        while pos < n and data[pos] != 10: pos += 1
        if pos >= n: return None
        pos += 1
    while True:
        if pos >= n: return None
        if data[pos] == 10: return pos + 1
        if data[pos] == 13 and pos + 1 < n and data[pos + 1] == 10: return pos + 2
        while pos < n and data[pos] != 10: pos += 1
        if pos >= n: return None
        pos += 1


def assert_framing(L, E, I, o, r=None):
    """C03: Complete(n) ends exactly at the first empty line; Partial only if there is none"""
    sc = I.sc
    if o.status == 'PANIC': return
    if sc.kind == 'chunk':
        if o.status == 'C':
            # n = offset just past the first CRLF: bytes n-2,n-1 are CR LF and no CRLF pair ends before n
            L.concrete(2 <= o.n <= len(I.buf), f'chunk n={o.n} outside the buffer')
            if 2 <= o.n <= len(I.buf):
                L.byte_in(I.buf[o.n - 2], 1 << 13, 'byte n-2 is not CR'); L.byte_in(I.buf[o.n - 1], 1 << 10, 'byte n-1 is not LF')
                for j in range(1, o.n - 1):
                    a, b = I.buf[j - 1], I.buf[j]
                    L.zquery(f'an earlier CRLF ends at offset {j + 1} < n={o.n}', z3.And(zbyte(a) == 13, zbyte(b) == 10))
        return
    sp_first = sc.flags[4]
    if o.status not in ('C', 'P'): return
    if o.status == 'C':
        L.concrete(o.n <= len(I.buf), f'n={o.n} exceeds the buffer length {len(I.buf)}')
    if sp_first is False or sp_first == 0:
        found, he = harness.ref_head_end(E, I)
        if o.status == 'C':
            L.concrete(found and he == o.n, f'Complete(n={o.n}) but the first empty line ends at {he if found else None}')
        elif o.status == 'P':
            L.concrete(not found, f'Partial although an empty line already ends at offset {he}')
    else:
        # flag may be on: emptiness depends on whether a header has been stored -> the reference parser's n
        if r is None: r = run_ref(E, I)
        if o.status == 'C' and KIND_NAMES[r['kind']] == 'C':
            L.concrete(o.n == r['n'], f"Complete(n={o.n}) but the reference head ends at {r['n']}")
        elif o.status == 'P':
            L.concrete(KIND_NAMES[r['kind']] != 'C', f"Partial although the reference finds the head complete at {r['n']}")


def field_slices(o, kind):
    """[(label, (in_buf, off, len, alloc))] in required order for a Complete result"""
    out = []
    if kind == 'req':
        for nm in ('method', 'path'):
            if o.fields.get(nm) is not None: out.append((nm, o.fields[nm]))
    elif kind == 'resp':
        if o.fields.get('reason') is not None: out.append(('reason', o.fields['reason']))
    for i, h in enumerate(o.headers):
        if isinstance(h, str): continue
        out.append((f'header[{i}].name', h[0])); out.append((f'header[{i}].value', h[1]))
    return out


def assert_zerocopy(L, E, I, o):
    """C04 (dynamic half): every non-empty slice lies in the buffer, inside buf[..n], in order, non-overlapping"""
    if o.status == 'PANIC': return
    fs = field_slices(o, I.sc.kind)
    last_end = 0; last_lbl = 'start'
    for lbl, (inb, off, ln, alloc) in fs:
        if ln == 0: continue
        L.concrete(inb, f'{lbl} (len {ln}) does not point into the caller buffer (allocation {alloc})')
        if not inb: continue
        L.concrete(off + ln <= len(I.buf), f'{lbl} [{off},{off + ln}) extends past the buffer')
        if o.status == 'C':
            L.concrete(off + ln <= o.n, f'{lbl} [{off},{off + ln}) extends past the consumed head n={o.n}')
            L.concrete(off >= last_end, f'{lbl} [{off},{off + ln}) overlaps or precedes {last_lbl} ending at {last_end}')
            last_end = off + ln; last_lbl = lbl


def utf8_violation_z3(cells):
    """z3 Bool: the byte sequence is NOT well-formed UTF-8 (Unicode table 3-7), as a DFA unrolled over the slice"""
    # states: 0 ok, 1..: expecting continuation(s) with a range for the next byte
    n = len(cells)
    zb = [zbyte(c) for c in cells]

    def rng(x, lo, hi): return z3.And(z3.UGE(x, lo), z3.ULE(x, hi))
    memo = {}

    def ok_from(i):
        if i >= n: return z3.BoolVal(True)
        if i in memo: return memo[i]
        b = zb[i]; alts = [z3.And(z3.ULE(b, 0x7f), ok_from(i + 1))]

        def seq(lead, second, k):
            # lead byte at i, then k continuation bytes at i+1..i+k (the first one range-restricted)
            if i + k > n - 1: return None
            parts = [lead, rng(zb[i + 1], second[0], second[1])]
            for j in range(2, k + 1): parts.append(rng(zb[i + j], 0x80, 0xbf))
            parts.append(ok_from(i + k + 1))
            return z3.And(parts)
        for lead, second, k in [(rng(b, 0xc2, 0xdf), (0x80, 0xbf), 1), (b == 0xe0, (0xa0, 0xbf), 2),
                                (z3.Or(rng(b, 0xe1, 0xec), rng(b, 0xee, 0xef)), (0x80, 0xbf), 2), (b == 0xed, (0x80, 0x9f), 2),
                                (b == 0xf0, (0x90, 0xbf), 3), (rng(b, 0xf1, 0xf3), (0x80, 0xbf), 3), (b == 0xf4, (0x80, 0x8f), 3)]:
            s = seq(lead, second, k)
            if s is not None: alts.append(s)
        memo[i] = z3.Or(alts)
        return memo[i]
    return z3.Not(ok_from(0))


def assert_hygiene(L, E, I, o):
    """C05: class-clean fields, valid UTF-8 strs, no NUL / bare CR in the consumed head"""
    if o.status == 'PANIC': return
    sc = I.sc; buf = I.buf
    folding = sc.flags[1]

    def cells(t):
        inb, off, ln, alloc = t
        if not inb or off + ln > len(buf): return None
        return buf[off:off + ln]
    # every &str handed out (also on Partial/Err) is valid UTF-8
    strs = []
    if sc.kind == 'req': strs = [('method', o.fields.get('method')), ('path', o.fields.get('path'))]
    elif sc.kind == 'resp': strs = [('reason', o.fields.get('reason'))]
    for i, h in enumerate(o.headers):
        if not isinstance(h, str): strs.append((f'header[{i}].name', h[0]))
    for lbl, t in strs:
        if t is None or t[2] == 0: continue
        cs = cells(t)
        if cs is None: continue
        if all(c.conc() for c in cs):
            try: bytes(c.v for c in cs).decode('utf-8'); okc = True
            except UnicodeDecodeError: okc = False
            L.concrete(okc, f'{lbl} is a &str that is not valid UTF-8')
        else:
            L.zquery(f'{lbl} is a &str that is not valid UTF-8', utf8_violation_z3(cs))
    if o.status != 'C': return
    if sc.kind == 'req':
        for nm, cls, cname in (('method', TCHAR, 'tchar'), ('path', URICH, '0x21-0x7E/0x80-0xFF')):
            t = o.fields.get(nm)
            L.concrete(t is not None and t[2] > 0, f'{nm} is missing or empty in a Complete result')
            if t is None: continue
            for j, c in enumerate(cells(t) or []): L.byte_in(c, cls, f'{nm} byte {j} outside {cname}')
        v = o.fields.get('version')
        L.concrete(v is not None and v.conc() and v.v in (0, 1), f'version {v} is not 0 or 1')
    if sc.kind == 'resp':
        v = o.fields.get('version')
        L.concrete(v is not None and v.conc() and v.v in (0, 1), f'version {v} is not 0 or 1')
        t = o.fields.get('reason')
        L.concrete(t is not None, 'reason missing in a Complete result')
        if t is not None:
            for j, c in enumerate(cells(t) or []): L.byte_in(c, REASONCH, f'reason byte {j} outside HTAB/SP/0x21-0x7E')
        code = o.fields.get('code')
        L.concrete(code is not None, 'code missing in a Complete result')
        if code is not None:
            zc = z3.BitVecVal(code.v, 16) if code.conc() else sym.zexpr(code.v)
            L.zquery('code > 999', z3.UGT(zc, 999))
    for i, h in enumerate(o.headers):
        if isinstance(h, str): continue
        nt, vt = h
        L.concrete(nt[2] > 0, f'header[{i}] name is empty')
        for j, c in enumerate(cells(nt) or []): L.byte_in(c, TCHAR, f'header[{i}] name byte {j} outside tchar')
        vc = cells(vt) or []
        if vt[2] > 0 and vc:
            L.byte_in(vc[0], sym.MASK256 & ~WS, f'header[{i}] value starts with SP/HTAB')
            L.byte_in(vc[-1], sym.MASK256 & ~WS, f'header[{i}] value ends with SP/HTAB')
        for j, c in enumerate(vc):
            if folding is False or sc.kind != 'resp':
                L.byte_in(c, VALUECH, f'header[{i}] value byte {j} outside HTAB/SP/0x21-0x7E/0x80-0xFF')
            else:
                # CR / LF admitted only under the folding flag and only as part of a line break followed by SP/HTAB
                fz = I.flags[1]; fz = z3.BoolVal(fz.v) if fz.conc() else sym.zexpr(fz.v)
                zb = zbyte(c)
                bad = z3.Not(sym.zmask(zb, VALUECH))
                nxt = zbyte(vc[j + 1]) if j + 1 < len(vc) else None
                nxt2 = zbyte(vc[j + 2]) if j + 2 < len(vc) else None
                lf_ok = z3.And(zb == 10, sym.zmask(nxt, WS)) if nxt is not None else z3.BoolVal(False)
                cr_ok = z3.And(zb == 13, nxt == 10, sym.zmask(nxt2, WS)) if nxt2 is not None else z3.BoolVal(False)
                L.zquery(f'header[{i}] value byte {j} outside its class (CR/LF only with folding, followed by SP/HTAB)',
                         z3.And(bad, z3.Not(z3.And(fz, z3.Or(lf_ok, cr_ok)))))
    # consumed head: no NUL, every CR followed by LF
    for j in range(min(o.n, len(buf))):
        c = buf[j]
        L.byte_in(c, sym.MASK256 & ~1, f'NUL at offset {j} inside the consumed head')
        if j + 1 < o.n: L.zquery(f'CR at offset {j} not followed by LF inside the consumed head', z3.And(zbyte(c) == 13, zbyte(buf[j + 1]) != 10))
        else: L.byte_in(c, sym.MASK256 & ~(1 << 13), 'CR as the last byte of the consumed head')


def assert_storage(L, E, I, o, r):
    """C17: count, untouched slots, restore / untouched `headers` on Partial/Err, never-exposed uninit cells"""
    if o.status == 'PANIC': return
    sc = I.sc; cells = o.cells
    uninit_api = sc.api in ('uninit', 'cfg_uninit')
    for h in o.headers:
        L.concrete(h != 'uninit', 'an uninitialized header slot is exposed through `headers`')
    if sc.kind == 'headers':
        if o.status == 'C':
            c, k = nav(o.hdr_ref)
            L.concrete(c is cells and k == 0, 'returned headers slice does not start at the caller array')
            for i in range(o.hdr_len, len(cells)):
                cell = cells[i]
                L.concrete(cell is not UNINIT and str(cell[0].alloc) == f'old{i}', f'slot {i} beyond the returned count was modified')
        return
    if o.status == 'C':
        c, k = nav(o.hdr_ref)
        L.concrete(c is cells and k == 0, '`headers` does not refer to the start of the caller array after Complete')
        L.concrete(all(not isinstance(h, str) for h in o.headers), 'an exposed element is not a header parsed from this buffer: ' + str([h for h in o.headers if isinstance(h, str)]))
        for i in range(o.hdr_len, len(cells)):
            cell = cells[i]
            if uninit_api: L.concrete(cell is UNINIT, f'slot {i} beyond the count was written')
            else: L.concrete(cell is not UNINIT and str(cell[0].alloc) == f'old{i}', f'slot {i} beyond the count lost its previous content')
        if r is not None and KIND_NAMES[r['kind']] == 'C':
            L.concrete(o.hdr_len == r['count'], f"headers.len()={o.hdr_len} but {r['count']} header lines were accepted")
    else:
        if uninit_api:
            L.concrete(o.fields.get('headers_same_as_before') is True, '`headers` was modified by an uninit entry point that did not complete')
        else:
            c, k = nav(o.hdr_ref)
            L.concrete(c is cells and k == 0 and o.hdr_len == len(cells), f'`headers` not restored to the whole caller array (len {o.hdr_len} of {len(cells)})')
            for i, cell in enumerate(cells):
                ok = cell is not UNINIT and (str(cell[0].alloc) == f'old{i}' or nav(cell[0])[0] is I.buf)
                L.concrete(ok, f'slot {i} holds neither its previous content nor a header from this buffer')


def add_validation(rec, E, I, o, params, api=None, variant=None, cap=None):
    """every k-th leaf (by a hash of its decision vector) is replayed natively by the runner: the engine's predicted
    observation must equal the real parser's"""
    k = params.get('validate_every', 25)
    if not k or o.status == 'PANIC': return
    h = hash(tuple(E.decisions)) % k
    if h != 0: return
    wit = E.witness()
    if wit is None: return
    bits, data = concrete_input(I, wit)
    sc = I.sc
    rec.setdefault('extra', {}).setdefault('validate', []).append(
        {'variant': variant or sc.variant, 'kind': sc.kind, 'api': api or sc.api, 'flags': bits, 'cap': sc.cap if cap is None else cap, 'buf': data.hex(),
         'pred': predicted_json(E, I, o)(wit)})


def space_of(sc_kwargs):
    n = 1
    fixed = sc_kwargs.get('fixed') or {}
    for i in range(sc_kwargs.get('nsym', 0)):
        n *= len(fixed[i]) if i in fixed else 256
    for f in sc_kwargs.get('flags') or []:
        if f == 'sym': n *= 2
    if str(sc_kwargs.get('variant', '')).startswith('x86-rt'): return None     # scheduling variables are created on demand: no fixed input space
    return n
