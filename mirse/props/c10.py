"""C10 - error classification: the error kind names the element of the first offending byte; TooManyHeaders exactly when a surplus line completes."""
from .jobs import *
REQUIRED_WITNESSES = ['E:HeaderName', 'E:HeaderValue', 'E:NewLine', 'E:Status', 'E:Token', 'E:TooManyHeaders', 'E:Version']
BOUNDS = {'quick': 'Err leaves of: headers to 10 bytes (capacities 0,1,3), message header blocks to 7/6 (options symbolic), start lines to 7/11, capacity sweeps with one and two concrete accepted lines before the symbolic part',
          'thorough': 'headers to 13, message header blocks to 10/8, start lines to 10/14'}
OUTSIDE = 'longer inputs'
EXPLANATION = 'on every path where the implementation or the reference rejects, the error kinds are compared (reference = first offending byte classification of the property text); all 7 kinds must be reached'


def jobs(tier, seed):
    P = 'C10'; G = ['ref_err']
    J = header_families(P, G, tier)
    J += startline_families(P, G, tier, scale=-1)
    # TooManyHeaders precedence: array exactly full (or one short) before the symbolic part
    for cap in (1, 2):
        J += deepen(P, G, f'full-array-cap{cap}', lambda n, cap=cap: sc('req', n, prefix=REQ_LINE + b'A: 1\r\n', api='cfg', fl=REQ_HDR_SYM, cap=cap),
                    range(3, T(tier, 6, 8) + 1), T(tier, 100, 900), f'request, start line + "A: 1" line, capacity {cap}, ' + 'every {n}-byte remainder, request header options symbolic', 5)
    J += deepen(P, G, 'full-array-resp', lambda n: sc('resp', n, prefix=RESP_LINE + b'A: 1\r\n', api='cfg', fl=RESP_HDR_SYM, cap=1),
                range(3, T(tier, 5, 7) + 1), T(tier, 100, 900), 'response, start line + "A: 1" line, capacity 1, every {n}-byte remainder, 4 header options symbolic', 4)
    if tier == 'thorough': J += sliding_families(P, G, tier)
    return J
