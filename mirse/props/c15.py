"""C15 - options are conservative extensions and affect only their own message kind."""
import z3
from .jobs import *
from .. import sym
from ..engine import BoolV
from ..harness import Scenario, instantiate, run_impl, make_cells, REQ_FLAGS, RESP_FLAGS
from . import common
from .common import Leaf
from .c16 import cmp_obs
from .c02 import same_field

REQUIRED_WITNESSES = ['C', 'C+hdr']
BOUNDS = {'quick': 'default-accepted inputs: concrete start line + every header block to 8 bytes (responses) / 8 (requests), start-line tails to 8 symbolic bytes, second run with all 7 options symbolic; the same relation on the neighbourhood templates (1-3 symbolic bytes at 17 places of complete messages) and on 2-byte windows slid over four realistic messages; kind-crossing (also on those templates and windows): every outcome of requests with the 5 response-documented options symbolic (header blocks to 6, request buffers to 7 bytes) and of responses with the 2 request-only options symbolic (header blocks to 7, response buffers to 10)',
          'thorough': 'header blocks to 10; tails to 10; kind-crossing to 8 / 9 / 13'}
OUTSIDE = 'longer inputs'
EXPLANATION = 'two implementation runs on the same symbolic bytes: default configuration first; where it is Complete, the run with symbolic options must be identical (reason modulo leading SP iff the response multi-space option is set). Kind-crossing compares every outcome, fields included.'


def leaf_conservative(E, params):
    sc0 = Scenario(**params['scenario'])          # flags of the scenario = the symbolic ones for the second run
    I = instantiate(E, sc0)
    d = run_impl(E, I, flags=[BoolV(False)] * 7)
    L = Leaf(E, I, params['prop']); o2 = None
    if d.status == 'PANIC': L.concrete(False, f'panic: {d.panic}')
    elif d.status == 'C':
        o2 = run_impl(E, I, cells=make_cells(E, sc0))
        if o2.status == 'PANIC': L.concrete(False, f'panic: {o2.panic}')
        else:
            L.concrete(o2.status == 'C' and o2.n == d.n, f'default config: Complete({d.n}); with options: {o2.status} n={o2.n}')
            if o2.status == 'C':
                for nm in d.fields:
                    if nm in ('headers_same_as_before',): continue
                    if nm == 'reason':
                        a, b = d.fields[nm], o2.fields.get(nm)
                        if a is not None and b is not None and a[:3] != b[:3]:
                            # allowed only: multi-space response option set, and the difference is leading SPs stripped
                            ok_shape = b[0] == a[0] and b[1] >= a[1] and b[1] + b[2] == a[1] + a[2] if a[2] else b[2] == 0
                            L.concrete(ok_shape, f'reason {a[:3]} vs {b[:3]} is not a leading-space strip')
                            if ok_shape and a[2]:
                                fl = I.flags[3]; zfl = z3.BoolVal(fl.v) if fl.conc() else sym.zexpr(fl.v)
                                sp = z3.And([common.zbyte(c) == 0x20 for c in I.buf[a[1]:b[1]]])
                                nxt = (common.zbyte(I.buf[b[1]]) != 0x20) if b[2] else z3.BoolVal(True)
                                L.zquery('reason differs although the response multi-space option is off, or more/less than the leading spaces were removed', z3.Not(z3.And(zfl, sp, nxt)))
                        else: same_field(L, nm, a, b)
                    else: same_field(L, nm, d.fields[nm], o2.fields.get(nm))
                L.concrete(d.headers == o2.headers, f'headers: default {d.headers} vs with options {o2.headers}')
    viol = L.finish(common.predicted_json(E, I, o2 if o2 is not None else d))
    for v in viol:
        v['rel'] = 'same'; v['compare'] = 'no_reason' if 'reason' in v['msg'] and False else 'all'
        e = common.entry_name(sc0.kind, 'cfg')
        v['runs'] = [{'entry': e, 'flags': 0, 'cap': sc0.cap, 'buf': v['buf']}, {'entry': e, 'flags': v['flags'], 'cap': sc0.cap, 'buf': v['buf']}]
        if v['flags'] & 8 and sc0.kind == 'resp': v['compare'] = 'reason_strip'
    lab = common.outcome_label(d)
    rec = {'outcome': lab, 'obligations': L.nobl, 'violations': viol, 'witnesses': {lab: 1, ('C+hdr' if d.status == 'C' and d.headers else lab): 1}}
    s = common.sample_of(E, I, d, f' | with options: {common.outcome_label(o2) if o2 else "-"}')
    if s: rec['sample'] = s
    if o2 is not None: common.add_validation(rec, E, I, o2, params)
    return rec


def leaf_crossing(E, params):
    """options documented for the other message kind must not change any outcome"""
    sc0 = Scenario(**params['scenario'])
    I = instantiate(E, sc0)
    own = REQ_FLAGS if sc0.kind == 'req' else RESP_FLAGS
    base_flags = [I.flags[i] if (i in own and sc0.flags[i] != 'sym') else BoolV(False) for i in range(7)]
    a = run_impl(E, I, flags=base_flags)
    b = run_impl(E, I, cells=make_cells(E, sc0))
    L = Leaf(E, I, params['prop'])
    cmp_obs(L, a, b, 0, 'other-kind options off vs on: ')
    viol = L.finish(common.predicted_json(E, I, b))
    for v in viol:
        e = common.entry_name(sc0.kind, 'cfg'); mask = 0
        for i in own: mask |= 1 << i
        v['rel'] = 'same'; v['runs'] = [{'entry': e, 'flags': v['flags'] & mask, 'cap': sc0.cap, 'buf': v['buf']}, {'entry': e, 'flags': v['flags'], 'cap': sc0.cap, 'buf': v['buf']}]
    lab = common.outcome_label(a)
    rec = {'outcome': lab, 'obligations': L.nobl, 'violations': viol, 'witnesses': {lab: 1, ('C+hdr' if a.status == 'C' and a.headers else lab): 1}}
    s = common.sample_of(E, I, a, f' | {common.outcome_label(b)}')
    if s: rec['sample'] = s
    common.add_validation(rec, E, I, b, params)
    return rec


def jobs(tier, seed):
    P = 'C15'; G = ['same']; J = []
    bud = T(tier, 120, 1200)
    kw = dict(fn='mirse.props.c15.leaf_conservative')
    J += deepen(P, G, 'resp-hdr', lambda n: sc('resp', n, prefix=RESP_LINE, api='cfg', fl=ALL_SYM, cap=2), range(T(tier, 6, 4), T(tier, 8, 10) + 1), bud,
                'response start line + every {n}-byte header block: default vs all 128 configurations', 6, **kw)
    J += deepen(P, G, 'req-hdr', lambda n: sc('req', n, prefix=REQ_LINE, api='cfg', fl=ALL_SYM, cap=2), range(T(tier, 6, 4), T(tier, 8, 10) + 1), bud,
                'request start line + every {n}-byte header block: default vs all 128 configurations', 6, **kw)
    J += deepen(P, G, 'resp-tail', lambda n: sc('resp', n, prefix=b'HTTP/1.1 20', api='cfg', fl=ALL_SYM, cap=1), range(T(tier, 6, 4), T(tier, 8, 10) + 1), bud,
                'response "HTTP/1.1 20" + every {n}-byte remainder: default vs all 128 configurations', 6, **kw)
    J += deepen(P, G, 'req-tail', lambda n: sc('req', n, prefix=b'GET ', suffix=b'TTP/1.1\r\n\r\n', api='cfg', fl=ALL_SYM, cap=1), range(T(tier, 3, 2), T(tier, 5, 7) + 1), bud,
                'request "GET " + {n} symbolic bytes + "TTP/1.1" CRLFCRLF: default vs all 128 configurations', 3, **kw)
    # windows at the places where the options act, inside complete messages (so that look-ahead fast paths have bytes to look at):
    # default configuration vs all 128 configurations
    J += neighbourhood_families(P, G, tier, fl_override=lambda kind: ALL_SYM, tag='nb128-', **kw)
    J += sliding_families(P, G, tier, fl_override=lambda kind: ALL_SYM, tag='slide128-', **kw)
    kw = dict(fn='mirse.props.c15.leaf_crossing')
    respdoc = flags(sp_after_name='sym', obs_fold='sym', multi_sp_resp='sym', ignore_resp='sym')      # documented for responses only
    reqonly = flags(multi_sp_req='sym', ignore_req='sym')
    J += deepen(P, G, 'cross-req-hdr', lambda n: sc('req', n, prefix=REQ_LINE, api='cfg', fl=respdoc, cap=1), range(T(tier, 6, 4), T(tier, 6, 8) + 1), bud,
                'request start line + every {n}-byte header block, the 4 response-only options symbolic vs off', 5, **kw)
    J += deepen(P, G, 'cross-reqline', lambda n: sc('req', n, api='cfg', fl=respdoc, cap=1), range(T(tier, 7, 5), T(tier, 7, 9) + 1), bud,
                'request, every {n}-byte buffer, the 4 response-only options symbolic vs off', 6, **kw)
    J += deepen(P, G, 'cross-resp-hdr', lambda n: sc('resp', n, prefix=RESP_LINE, api='cfg', fl=reqonly, cap=1), range(T(tier, 7, 4), T(tier, 7, 9) + 1), bud,
                'response start line + every {n}-byte header block, the 2 request-only options symbolic vs off', 6, **kw)
    J += deepen(P, G, 'cross-statusline', lambda n: sc('resp', n, api='cfg', fl=reqonly, cap=1), range(T(tier, 10, 8), T(tier, 10, 13) + 1), bud,
                'response, every {n}-byte buffer, the 2 request-only options symbolic vs off', 9, **kw)
    # kind-crossing on the same windows: only the options documented for the OTHER message kind are symbolic
    other = lambda kind: respdoc if kind == 'req' else reqonly
    J += neighbourhood_families(P, G, tier, fl_override=other, tag='nbx-', **kw)
    J += sliding_families(P, G, tier, fl_override=other, tag='slidex-', **kw)
    return J
