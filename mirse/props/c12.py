"""C12 - every byte-class scanner stops exactly at the first out-of-class byte.
The real scanner functions of every back end are executed on symbolic buffers of every length 0..=L; on each path the final
cursor is concrete and the obligations are: every byte before it is in the class, the byte at it (if any) is not."""
import z3
from .jobs import *
from .. import sym, harness
from ..engine import IntV, BoolV, Ref, Panic, Unsupported, nav
from ..runner import Job
from . import common
from .common import Leaf, TCHAR, URICH, VALUECH

CLASSES = {'uri': URICH, 'value': VALUECH, 'name': TCHAR}
BOUNDS = {'quick': 'word-at-a-time (x86-64 BLOCK 8, i686 BLOCK 4), SSE4.2, AVX2, runtime dispatcher (CPU feature symbolic), compile-time wrappers, NEON (real aarch64 MIR, intrinsics modelled): buffers of 35 lengths between 0 and 100 chosen around every block boundary (0..9, 12, 15-17, 24, 31-35, 39-41, 47-49, 63-66, 71, 80, 96, 97, 100; NEON name scanner to 36; dispatcher and compile-time wrappers at 8 lengths to 66; i686 to 41), every byte symbolic over all 256 values (value scanners: HTAB admitted at one rotating position beyond length 8); block functions over 8/16/32 fully symbolic bytes',
          'thorough': 'every length 0..=100 (NEON name scanner 0..=36), same per-byte coverage'}
OUTSIDE = 'longer buffers; big-endian targets; NEON results cannot be replayed natively on this x86-64 host'
EXPLANATION = 'classes are the three sets written in the property text; alignment independence follows from the engine (the buffer base address is unknown to every computation; an aligned or address-dependent access is rejected)'
ASSUMPTIONS = ['x86 and NEON intrinsic models in mirse/models.py follow the vendor pseudocode',
               'the scanner functions are private, so no native run validates a scanner-level prediction directly (traces_validated_against_impl = 0 here); the x86 intrinsic models are validated through the whole-parser native replays of C01/C13 on the runtime-dispatch build']
REQUIRED_WITNESSES = ['stop:end', 'stop:inside']

SCANNER_VARIANTS = ['swar-rel', 'x86-rt', 'x86-sse42-ct', 'x86-avx2-ct', 'a64-neon', 'i686-swar']
SUFFIX_CLASS = {'match_uri_vectored': 'uri', 'match_header_value_vectored': 'value', 'match_header_name_vectored': 'name'}


def discover_scanners(variants=None):
    """every function of every build variant whose name is <module>::match_{uri,header_value,header_name}_vectored, found in the MIR of
    the current tree (module names are implementation details: a renamed or merged module is still picked up).
    returns [(variant, function, class, tag)]; the word-at-a-time scanners are listed once for x86-64 and once for i686"""
    from .. import harness
    out = []; seen_swar = False
    for v in (variants or SCANNER_VARIANTS):
        P = harness.load_program(v)
        for name in P.funcs:
            if '::' not in name or '{' in name: continue
            mod, fn = name.rsplit('::', 1)
            if fn not in SUFFIX_CLASS or '<' in mod: continue
            mod = mod.split('::')[-1]
            if mod == 'swar' and v not in ('swar-rel', 'i686-swar'): continue
            tag = {'swar-rel': 'swar', 'i686-swar': 'swar32'}.get(v, mod) if mod == 'swar' else (mod if v in ('x86-rt', 'a64-neon') else f'{mod}@{v}')
            if v != 'x86-rt' and mod in ('sse42', 'avx2') : continue        # the same source file as in x86-rt
            out.append((v, name, SUFFIX_CLASS[fn], tag))
    return out


def tag_kind(tag):
    """dispatchers and thin wrappers are exercised at fewer lengths than the scanners they forward to"""
    return 'wrapper' if ('runtime' in tag or 'compile_time' in tag or '@' in tag) else ('swar32' if tag == 'swar32' else 'scanner')


from ..harness import install_cpu


def leaf_scan(E, params):
    variant = params['variants'][0]; fn = params['fn']; cls = CLASSES[params['cls']]; L = params['L']
    fixed = params.get('fixed') or {}
    E.use(variant)
    cells = []
    for i in range(L):
        m = sym.MASK256
        if str(i) in fixed or i in fixed:
            m = 0
            for b in fixed.get(i, fixed.get(str(i))): m |= 1 << b
        v = E.new_var(m, 'b%d' % i); cells.append(IntV(8, sym.var_node(v)))
    cpu = install_cpu(E) if variant.startswith('x86-rt') and not fn.startswith(('swar::', 'sse42::', 'avx2::')) else None
    entered = []
    if cpu is not None:
        E.hooks['call'] = lambda path, f, args: entered.append(f.name.split('::')[0]) if (f is not None and f.name.startswith(('avx2::', 'sse42::'))) else None
    bytes_new = E.by_method[(None, 'Bytes', 'new')]
    bv = E.call_func(bytes_new, [Ref(cells, (0,), L, 'buf')])
    box = [bv]
    panic = None
    try:
        f = E.resolve(fn)
        if f is None: raise Unsupported('scanner not found in this build: ' + fn)
        E.call_func(f, [Ref(box, (0,), None, 'local')])
    except Panic as e:
        panic = e
    finally:
        E.hooks.pop('call', None)
    viol = []; nobl = 0
    I = FakeInst(cells, params)
    Lf = Leaf(E, I, params.get('prop', 'C12'))
    if panic is not None:
        Lf.concrete(False, f'scanner does not return normally: {panic}')
        pos = None
    else:
        cur = box[0][2]; c, pos = nav(cur)
        Lf.concrete(c is cells and 0 <= pos <= L, f'cursor left the buffer: {cur}')
        st = box[0][0]; en = box[0][1]
        Lf.concrete(nav(en)[1] == L, 'end pointer changed')
        for j in (range(min(pos, L)) if not params.get('safety_only') else []):
            Lf.byte_in(cells[j], cls, f'{fn}: stopped at {pos} but byte {j} before it is outside the class')
        if pos < L and not params.get('safety_only'):
            Lf.byte_in(cells[pos], sym.MASK256 & ~cls, f'{fn}: stopped at {pos} of {L} although that byte is in the class')
        if cpu is not None:
            for b in cpu['bad']: Lf.concrete(False, b)
            for nm in set(entered):
                has = cpu['kind'] is not None and cpu['kind'][0 if nm == 'avx2' else 1]
                Lf.concrete(bool(has), f'the dispatcher entered a #[target_feature(enable = "{nm}")] function on a CPU without that feature (cell schedule: any interleaving)')
    vs = Lf.finish(None)
    for v in vs: fix_violation(v, params, E)
    lab = 'PANIC' if panic else ('stop:end' if pos == L else 'stop:inside')
    rec = {'outcome': lab, 'obligations': Lf.nobl, 'violations': vs, 'witnesses': {lab: 1}}
    wit = E.witness()
    if wit is not None:
        rec['sample'] = {'scanner': fn, 'variant': variant, 'len': L, 'stop': pos, 'witness_buf': bytes((wit.get(i) or 0x61) for i in range(L)).hex()}
    return rec


class FakeSc:
    def __init__(self, params):
        self.kind = 'scan'; self.api = 'parse'; self.variant = params['variants'][0]; self.cap = 1; self.prefix = b''; self.suffix = b''; self.flags = [False] * 7
        self.nsym = params['L']; self.p = params

    def describe(self): return f"{self.p['fn']}@{self.variant} on {self.p['L']} symbolic bytes"


class FakeInst:
    def __init__(self, cells, params):
        self.sc = FakeSc(params); self.buf = cells; self.symvars = list(range(len(cells))); self.flagvars = {}; self.flags = [BoolV(False)] * 7


def fix_violation(v, params, E):
    """turn a scanner counterexample into a public-API input for the native gate: embed the bytes where this class is scanned"""
    raw = bytes.fromhex(v['buf']); cls = params['cls']
    # two embeddings: inside a complete message, and with the buffer ENDING right after the scanned bytes (tail-dependent scanners)
    if cls == 'uri': v['kind'] = 'req'; v['api'] = 'parse'; v['buf'] = (b'X ' + raw + b' HTTP/1.1\r\n\r\n').hex(); v['alt_bufs'] = [(b'X ' + raw).hex()]
    elif cls == 'value': v['kind'] = 'headers'; v['api'] = 'cfg'; v['buf'] = (b'N:x' + raw + b'x\r\n\r\n').hex(); v['alt_bufs'] = [(b'N:x' + raw).hex(), (b'N:' + raw + b'\r\n\r\n').hex()]
    else: v['kind'] = 'headers'; v['api'] = 'cfg'; v['buf'] = (b'x' + raw + b':v\r\n\r\n').hex(); v['alt_bufs'] = [(b'x' + raw).hex(), (raw + b':v\r\n\r\n').hex()]
    v['cap'] = 1; v['flags'] = 0; v['predicted'] = None; v['raw_scanner_input'] = raw.hex()
    if ('does not return normally' in v['msg'] and any(k in v['msg'] for k in ('oob:', 'uninit:', 'ptrcmp:', 'align:'))) or 'cursor left the buffer' in v['msg']:
        # memory-safety failure inside a scanner: the embedding changes what lies after the bytes, so a native run cannot confirm it
        v['rel'] = 'ub'
    v['note'] = 'scanner-level counterexample embedded into a message; the native gate compares the real parser with the reference on it'
    tag = params['tag']; variant = params['variants'][0]
    v['variant'] = {'sse42': 'x86-sse42-ct', 'avx2': 'x86-avx2-ct'}.get(tag, variant)
    if variant in ('a64-neon', 'i686-swar'): v['unreplayable'] = f'{variant}: this back end cannot execute on the x86-64 host'


def leaf_block(E, params):
    """block functions: result = index of the first byte outside the class, else the width (complete for the width)"""
    variant = params['variants'][0]; fn = params['fn']; cls = CLASSES[params['cls']]; W = params['W']; exact = params.get('exact', True)
    E.use(variant)
    cells = [IntV(8, sym.var_node(E.new_var(sym.MASK256, 'b%d' % i))) for i in range(W)]
    f = E.resolve(fn)
    if f is None: raise Unsupported('block function not found: ' + fn)
    mode = params['argmode']
    panic = None; r = None
    try:
        if mode == 'array': r = E.call_func(f, [list(cells)])
        elif mode == 'slice': r = E.call_func(f, [Ref(cells, (0,), W, 'buf')])
        else: r = E.call_func(f, [Ref(cells, (0,), None, 'buf')])
    except Panic as e: panic = e
    I = FakeInst(cells, dict(params, L=W))
    Lf = Leaf(E, I, 'C12')
    if panic is not None: Lf.concrete(False, f'block function panics: {panic}'); k = None
    else:
        if not r.conc(): r = E.concretize(r, 0, W)
        k = r.v
        Lf.concrete(0 <= k <= W, f'result {k} outside 0..={W}')
        for j in range(min(k, W)): Lf.byte_in(cells[j], cls, f'{fn}: returned {k} but byte {j} is outside the class')
        if k < W and exact: Lf.byte_in(cells[k], sym.MASK256 & ~cls, f'{fn}: returned {k} although byte {k} is in the class')
    vs = Lf.finish(None)
    for v in vs: fix_violation(v, dict(params, L=W), E)
    lab = 'PANIC' if panic else ('stop:end' if k == W else 'stop:inside')
    return {'outcome': lab, 'obligations': Lf.nobl, 'violations': vs, 'witnesses': {lab: 1}}


BLOCKS = [('swar-rel', 'match_uri_char_8_swar', 'uri', 8, 'array', True), ('swar-rel', 'match_header_value_char_8_swar', 'value', 8, 'array', False),
          ('i686-swar', 'match_uri_char_8_swar', 'uri', 4, 'array', True), ('i686-swar', 'match_header_value_char_8_swar', 'value', 4, 'array', False),
          ('x86-rt', 'match_url_char_16_sse', 'uri', 16, 'slice', True), ('x86-rt', 'match_header_value_char_16_sse', 'value', 16, 'slice', True),
          ('x86-rt', 'match_url_char_32_avx', 'uri', 32, 'slice', True), ('x86-rt', 'match_header_value_char_32_avx', 'value', 32, 'slice', True),
          ('a64-neon', 'match_url_char_16_neon', 'uri', 16, 'ptr', True), ('a64-neon', 'match_header_value_char_16_neon', 'value', 16, 'ptr', True),
          ('a64-neon', 'match_header_name_char_16_neon', 'name', 16, 'ptr', True)]


def dispatchers(variant='x86-rt'):
    return [(fn, cls) for v, fn, cls, tag in discover_scanners([variant]) if not fn.startswith(('swar::', 'sse42::', 'avx2::', 'neon::'))]


def jobs(tier, seed):
    from .. import harness
    J = []
    NOTAB = [b for b in range(256) if b != 9]
    for variant, fn, cls, W, mode, exact in BLOCKS:
        P_ = harness.load_program(variant)
        if not any(n == fn or n.endswith('::' + fn) for n in P_.funcs): continue      # internal helper renamed or removed: the scanner-level jobs still cover it
        params = {'variants': [variant], 'fn': fn, 'cls': cls, 'W': W, 'argmode': mode, 'exact': exact, 'prop': 'C12', 'xcheck_every': 4}
        J.append(Job(f'block-{variant}-{fn}', 'mirse.props.c12.leaf_block', params, T(tier, 120, 900),
                     f'{fn} ({variant}) on {W} fully symbolic bytes' + ('' if exact else ' (conservative: may stop early at HTAB, never late)'), groups=['ref'], mandatory=(W <= 16 and 'name' not in fn)))
    topL = 100
    for variant, fn, cls, tag in discover_scanners():
        top = topL
        if variant == 'a64-neon' and cls == 'name' and not fn.startswith('swar::'): top = 36
        if tier == 'quick':
            if tag_kind(tag) == 'wrapper':       # dispatchers / wrappers around scanners that are checked at every length themselves
                Ls = [0, 7, 8, 16, 17, 33, 40, 66]
            elif tag_kind(tag) == 'swar32':
                Ls = list(range(0, 10)) + [12, 15, 16, 17, 24, 31, 32, 33, 40, 41]
            else:
                Ls = [L for L in (list(range(0, 10)) + [12, 15, 16, 17, 24, 31, 32, 33, 34, 35, 39, 40, 41, 47, 48, 49, 63, 64, 65, 66, 71, 80, 96, 97, 100]) if L <= top]
        else:
            Ls = list(range(0, top + 1))
        if top not in Ls and not (tier == 'quick' and tag_kind(tag) != 'scanner'): Ls.append(top)
        for L in Ls:
            fixed = None
            if cls == 'value' and L > 8:
                tp = (seed * 5 + L * 3) % L
                fixed = {i: NOTAB for i in range(L) if i != tp}
            params = {'variants': [variant], 'fn': fn, 'cls': cls, 'L': L, 'tag': tag, 'fixed': fixed, 'prop': 'C12', 'xcheck_every': 25}
            J.append(Job(f'{tag}-{cls}-L{L}', 'mirse.props.c12.leaf_scan', params, T(tier, 60, 600),
                         f'{fn} ({variant}), every buffer of {L} bytes' + (' (HTAB only at one position)' if fixed else ''), family=f'{tag}-{cls}', groups=['ref'],
                         mandatory=(L <= 16)))
    for j in J: j.small = True
    return J
