"""C19 - allocation-free and no_std-clean.
(a) path-sensitive: on every explored path of every entry point each executed call is crate-local MIR or a whitelisted core
model; reaching any allocator-family callee is a violation (confirmed natively by a counting global allocator around the call).
(b) build fact (not a solver verdict): the crate builds with --no-default-features under every SIMD switch combination."""
import os, subprocess, time, concurrent.futures
from .jobs import *
from .. import build

REQUIRED_WITNESSES = ['C', 'P', 'E:HeaderName', 'E:Token']
BOUNDS = {'quick': 'no_std build and word-at-a-time std build: requests <= 6 bytes and header blocks <= 6 bytes behind concrete start lines through all entry-point flavours (all options symbolic), responses <= 9 bytes, parse_headers <= 8, parse_chunk_size <= 4; runtime-dispatch build: header blocks <= 5; build matrix: --no-default-features x {no target feature, +sse4.2, +avx2, +sse4.2,+avx2} x CARGO_CFG_HTTPARSE_DISABLE_SIMD_COMPILETIME {unset,1} x CARGO_CFG_HTTPARSE_DISABLE_SIMD {unset,1}',
          'thorough': 'requests <= 8, header blocks <= 8, responses <= 11'}
ASSUMPTIONS = ['stub: std::env::var / var_os return an arbitrary Option (the process environment is nondeterministic); Some(..) is an owned string, i.e. a heap allocation; the native gate sets the named variable in the replay process']
OUTSIDE = 'longer inputs; the build half is a fact about rustc/cargo, exercised not decided by the solver'
EXPLANATION = 'every call terminator on every explored path resolves to crate MIR or to a model in mirse/models.py; none of the models allocates; allocator-family paths (alloc::, Vec, String, Box, to_vec, to_owned, format, ...) are failures'


def build_matrix():
    repo = build.REPO; results = []

    def one(tf, ct, ds):
        with build.Scratch() as sd:
            env = build.base_env()
            if tf: env['RUSTFLAGS'] = '-C target-feature=' + tf
            if ct: env['CARGO_CFG_HTTPARSE_DISABLE_SIMD_COMPILETIME'] = '1'
            if ds: env['CARGO_CFG_HTTPARSE_DISABLE_SIMD'] = '1'
            p = subprocess.run(['cargo', 'check', '--offline', '--lib', '--no-default-features', '--target-dir', os.path.join(sd, 't')],
                               cwd=repo, env=env, stdout=subprocess.PIPE, stderr=subprocess.PIPE)
            err = ''
            if p.returncode != 0:
                err = '\n'.join(l for l in p.stderr.decode().split('\n') if l.startswith('error'))[:400]
            return {'target_feature': tf or '-', 'disable_simd_compiletime': ct, 'disable_simd': ds, 'builds': p.returncode == 0, 'errors': err}
    combos = [(tf, ct, ds) for tf in ('', '+sse4.2', '+avx2', '+sse4.2,+avx2') for ct in (False, True) for ds in (False, True)]
    with concurrent.futures.ThreadPoolExecutor(8) as ex:
        results = list(ex.map(lambda c: one(*c), combos))
    return results


def jobs(tier, seed):
    P = 'C19'; G = ['alloc']; J = []
    bud = T(tier, 100, 900)
    kw = dict(validate_every=40)
    for variant in ('nostd', 'swar-rel'):
        for api, fl, cap in (('cfg', ALL_SYM, 1), ('cfg_uninit', ALL_SYM, 2), ('parse', F0, 1), ('uninit', F0, 1)):
            tq = T(tier, 6, 8) - (0 if fl is F0 else 0)
            J += deepen(P, G, f'req-{api}-{variant}', lambda n, api=api, fl=fl, cap=cap, variant=variant: sc('req', n, api=api, fl=fl, cap=cap, variant=variant),
                        range(tq - T(tier, 0, 2), tq + 1), bud, f'Request via {api} ({variant}), ' + 'every {n}-byte buffer', tq - 1, **kw)
            J += deepen(P, G, f'req-hdr-{api}-{variant}', lambda n, api=api, fl=fl, cap=cap, variant=variant: sc('req', n, prefix=REQ_LINE, api=api, fl=fl, cap=cap, variant=variant),
                        range(tq - T(tier, 0, 2), tq + 1), bud, f'Request via {api} ({variant}), start line + ' + 'every {n}-byte header block', tq - 1, **kw)
        for api, fl, cap in (('cfg', ALL_SYM, 1), ('cfg_uninit', ALL_SYM, 2), ('parse', F0, 1)):
            tq = T(tier, 9, 11)
            J += deepen(P, G, f'resp-{api}-{variant}', lambda n, api=api, fl=fl, cap=cap, variant=variant: sc('resp', n, api=api, fl=fl, cap=cap, variant=variant),
                        range(tq - T(tier, 0, 2), tq + 1), bud, f'Response via {api} ({variant}), ' + 'every {n}-byte buffer', tq - 1, **kw)
            th = T(tier, 5, 7) if fl is ALL_SYM else T(tier, 6, 8)
            J += deepen(P, G, f'resp-hdr-{api}-{variant}', lambda n, api=api, fl=fl, cap=cap, variant=variant: sc('resp', n, prefix=RESP_LINE, api=api, fl=fl, cap=cap, variant=variant),
                        range(th - T(tier, 0, 2), th + 1), bud, f'Response via {api} ({variant}), start line + ' + 'every {n}-byte header block', th - 1, **kw)
        J += deepen(P, G, f'headers-{variant}', lambda n, variant=variant: sc('headers', n, cap=2, variant=variant), range(T(tier, 8, 6), T(tier, 8, 10) + 1), bud, f'parse_headers ({variant}), ' + 'every {n}-byte buffer', 7, **kw)
        J += deepen(P, G, f'chunk-{variant}', lambda n, variant=variant: sc('chunk', n, variant=variant), range(T(tier, 4, 2), T(tier, 4, 6) + 1), bud, f'parse_chunk_size ({variant}), ' + 'every {n}-byte buffer', 4, **kw)
    J += deepen(P, G, 'resp-hdr-x86-rt', lambda n: sc('resp', n, prefix=RESP_LINE, api='cfg', fl=RESP_HDR_SYM, cap=1, variant='x86-rt'), range(T(tier, 5, 4), T(tier, 5, 7) + 1), bud,
                'Response (runtime-dispatch build), start line + every {n}-byte header block', 4, **kw)
    return J


def main(pid, tier, seed):
    from .. import runner

    def post():
        t = time.time(); res = build_matrix()
        msgs = []; viol = []
        bad = [r for r in res if not r['builds']]
        for r in bad[:3]:
            viol.append({'prop': 'C19', 'msg': f"no_std build fails: target-feature={r['target_feature']} DISABLE_SIMD_COMPILETIME={int(r['disable_simd_compiletime'])} DISABLE_SIMD={int(r['disable_simd'])}: {r['errors'][:200]}",
                         'scenario': 'build matrix', 'kind': 'build', 'api': '-', 'variant': 'nostd', 'flags': 0, 'cap': 0, 'buf': '', 'predicted': None, 'rel': 'build', 'combo': r, 'groups': []})
        return viol, msgs, {'no_std_build_matrix': res, 'no_std_build_matrix_wall_s': round(time.time() - t, 1)}
    return runner.run_property(pid, tier, seed, post=post)
