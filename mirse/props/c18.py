"""C18 - history independence: one inductive step from an ARBITRARY pre-state of the Request/Response value and header array
(fields hold opaque earlier values, slots hold opaque earlier headers) compared with the same parse on a fresh value."""
from .jobs import *
from ..engine import IntV, Ref, EnumV
from ..harness import Scenario, instantiate, run_impl, make_cells
from . import common
from .common import Leaf
from .c16 import cmp_obs

REQUIRED_WITNESSES = ['C', 'C+hdr', 'P', 'E:HeaderName']
BOUNDS = {'quick': 'probe parse from an arbitrary pre-state (all fields Some(opaque), headers slice of current length c in {capacity, capacity-1} whose slots hold opaque headers) versus a fresh value over an equal-length array: header blocks to 7 bytes behind a concrete start line (options symbolic to 5-6), fully symbolic start lines to 7 / 10 bytes, capacities 1..2',
          'thorough': 'header blocks to 9 / 8; start lines to 9 / 13'}
OUTSIDE = 'longer probe buffers. Histories of any length are covered because the pre-state is arbitrary within the representation invariant (fields are Options, headers is a valid slice of initialised slots), and C17 shows every call re-establishes that invariant'
EXPLANATION = 'status always equal; on Complete all fields and headers equal and free of the opaque pre-state values'


def some(x): return EnumV('Option', 'Some', 1, [x])


def leaf(E, params):
    sc0 = Scenario(**params['scenario']); cur = params['curlen']
    I = instantiate(E, sc0)
    S = E.programs[sc0.variant].structs
    ty = 'Request' if sc0.kind == 'req' else 'Response'
    fields = S[ty]
    cells = [[Ref([f'prename{i}'], (0,), 7, f'pre{i}'), Ref([f'preval{i}'], (0,), 6, f'pre{i}')] for i in range(sc0.cap)]
    pre = []
    for f in fields:
        if f == 'headers': pre.append(Ref(cells, (0,), cur, 'hdr'))
        elif f in ('method', 'path', 'reason'): pre.append(some(Ref([f'pre-{f}'], (0,), 5, 'prefield')))
        elif f == 'version': pre.append(some(IntV(8, 7)))
        elif f == 'code': pre.append(some(IntV(16, 777)))
        else: raise Exception('unknown field ' + f)
    a = run_impl(E, I, cells=cells, pre=pre)
    fresh_sc = Scenario(**dict(params['scenario'], cap=cur))
    b = run_impl(E, I, cells=make_cells(E, fresh_sc))
    L = Leaf(E, I, params['prop'])
    if 'PANIC' in (a.status, b.status): L.concrete(False, f'panic: {a.panic or b.panic}')
    else:
        L.concrete(a.status == b.status and a.n == b.n, f'reused value: {a.status} n={a.n}; fresh value: {b.status} n={b.n}')
        if a.status == 'C' and b.status == 'C':
            cmp_obs(L, a, b, 0, 'reused vs fresh: ')
            for nm, v in a.fields.items():
                if isinstance(v, tuple): L.concrete(v[3] != 'prefield', f'{nm} still holds the value of an earlier parse')
                elif nm == 'version' and v is not None and v.conc(): L.concrete(v.v != 7, 'version still holds the value of an earlier parse')
            L.concrete(all(not (isinstance(h, str) and h.startswith('pre')) for h in a.headers), 'an exposed header is left over from an earlier parse')
    viol = L.finish(common.predicted_json(E, I, b))
    for v in viol:
        v['rel'] = 'history'
        if sc0.kind == 'resp':
            hs = [b'HTTP/1.0 299 Pre\r\nX: y', b'HTTP/1.0 299 Pre\r\n\x01'] if cur == sc0.cap else [b'HTTP/1.0 299 Pre\r\n' + b'X: y\r\n' * cur + b'\r\n']
        else:
            hs = [b'PRE /pre HTTP/1.0\r\nX: y', b'PRE /pre HTTP/1.0\r\n\x01'] if cur == sc0.cap else [b'PRE /pre HTTP/1.0\r\n' + b'X: y\r\n' * cur + b'\r\n']
        v['history'] = [h.hex() for h in hs]
    lab = common.outcome_label(b)
    rec = {'outcome': lab, 'obligations': L.nobl, 'violations': viol, 'witnesses': {lab: 1, ('C+hdr' if b.status == 'C' and b.headers else lab): 1}}
    s = common.sample_of(E, I, b, f' | from pre-state: {common.outcome_label(a)}')
    if s: rec['sample'] = s
    common.add_validation(rec, E, I, b, params, cap=cur)
    return rec


def jobs(tier, seed):
    P = 'C18'; G = ['history']; J = []
    bud = T(tier, 100, 900)
    for kind, pre, symfl in (('req', REQ_LINE, REQ_HDR_SYM), ('resp', RESP_LINE, RESP_HDR_SYM), ('resp', RESP_LINE_NOREASON, F0), ('req', REQ_LINE_LF, F0)):
        for cap, cur in ((2, 2), (2, 1), (1, 1)):
            if symfl is F0 and (cap, cur) != (2, 2): continue
            for fl in ((F0, symfl) if symfl is not F0 else (F0,)):
                symf = fl is not F0
                if symf and (cap, cur) == (2, 1): continue
                top = T(tier, 7, 9) - (2 if symf and kind == 'resp' else (1 if symf else 0))
                J += deepen(P, G, f'{kind}{len(pre)}-cap{cap}-len{cur}' + ('-opts' if symf else ''),
                            lambda n, kind=kind, pre=pre, fl=fl, cap=cap: sc(kind, n, prefix=pre, api='cfg', fl=fl, cap=cap),
                            range(top - T(tier, 0, 2), top + 1), bud, f'{kind} {pre!r} + ' + 'every {n}-byte header block' + f', array of {cap}, current headers length {cur}' + (', header options symbolic' if symf else ''),
                            top - 1, fn='mirse.props.c18.leaf', extra={'curlen': cur})
    J += deepen(P, G, 'reqline', lambda n: sc('req', n, api='cfg', fl=flags(multi_sp_req='sym'), cap=1), range(T(tier, 7, 5), T(tier, 7, 9) + 1), bud,
                'request, every {n}-byte buffer, array of 1', 6, fn='mirse.props.c18.leaf', extra={'curlen': 1})
    J += deepen(P, G, 'statusline', lambda n: sc('resp', n, api='cfg', fl=flags(multi_sp_resp='sym'), cap=1), range(T(tier, 10, 8), T(tier, 10, 13) + 1), bud,
                'response, every {n}-byte buffer, array of 1', 9, fn='mirse.props.c18.leaf', extra={'curlen': 1})
    for pre in (b'HTTP/1.1 204', b'HTTP/1.0 200 '):
        J += deepen(P, G, f'status-tail-{len(pre)}', lambda n, pre=pre: sc('resp', n, prefix=pre, api='cfg', fl=flags(multi_sp_resp='sym'), cap=1), range(T(tier, 6, 4), T(tier, 6, 8) + 1), bud,
                    f'response {pre!r} + ' + 'every {n}-byte remainder', 5, fn='mirse.props.c18.leaf', extra={'curlen': 1})
    return J
