"""C18 - history independence: one inductive step from an ARBITRARY pre-state of the Request/Response value and header array
(fields hold opaque earlier values, slots hold opaque earlier headers) compared with the same parse on a fresh value."""
from .jobs import *
from ..engine import IntV, Ref, EnumV
from ..harness import Scenario, instantiate, run_impl, make_cells
from . import common
from .common import Leaf
from .c16 import cmp_obs

REQUIRED_WITNESSES = ['C', 'C+hdr', 'P', 'E:HeaderName']
BOUNDS = {'quick': 'probe parse from an arbitrary pre-state (all fields Some(opaque), headers slice of current length c in {capacity, capacity-1} whose slots hold opaque headers) versus a fresh value over an equal-length array: header blocks to 7 bytes behind a concrete start line (options symbolic to 5-6), fully symbolic start lines to 7 / 10 bytes, capacities 1..2; the documented loop on one value: arbitrary pre-state, then a parse of the first k bytes of the probe buffer itself (every k), then the whole buffer, on 8 message templates with 2 symbolic bytes at the method / target / version / code / reason / a header',
          'thorough': 'header blocks to 9 / 8; start lines to 9 / 13; loop templates with 3 symbolic bytes'}
OUTSIDE = 'longer probe buffers. Histories of any length are covered because the pre-state is arbitrary within the representation invariant (fields are Options, headers is a valid slice of initialised slots), and C17 shows every call re-establishes that invariant'
EXPLANATION = 'status always equal; on Complete all fields and headers equal and free of the opaque pre-state values'


def some(x): return EnumV('Option', 'Some', 1, [x])


def leaf(E, params):
    sc0 = Scenario(**params['scenario']); cur = params['curlen']
    I = instantiate(E, sc0)
    S = E.programs[sc0.variant].structs
    ty = 'Request' if sc0.kind == 'req' else 'Response'
    fields = S[ty]
    cells = [[Ref([f'prename{i}'], (0,), 7, f'pre{i}'), Ref([f'preval{i}'], (0,), 6, f'pre{i}')] for i in range(sc0.cap)]
    pre = []
    for f in fields:
        if f == 'headers': pre.append(Ref(cells, (0,), cur, 'hdr'))
        elif f in ('method', 'path', 'reason'): pre.append(some(Ref([f'pre-{f}'], (0,), 5, 'prefield')))
        elif f == 'version': pre.append(some(IntV(8, 7)))
        elif f == 'code': pre.append(some(IntV(16, 777)))
        else: raise Exception('unknown field ' + f)
    a = run_impl(E, I, cells=cells, pre=pre)
    fresh_sc = Scenario(**dict(params['scenario'], cap=cur))
    b = run_impl(E, I, cells=make_cells(E, fresh_sc))
    L = Leaf(E, I, params['prop'])
    if 'PANIC' in (a.status, b.status): L.concrete(False, f'panic: {a.panic or b.panic}')
    else:
        L.concrete(a.status == b.status and a.n == b.n, f'reused value: {a.status} n={a.n}; fresh value: {b.status} n={b.n}')
        if a.status == 'C' and b.status == 'C':
            cmp_obs(L, a, b, 0, 'reused vs fresh: ')
            for nm, v in a.fields.items():
                if isinstance(v, tuple): L.concrete(v[3] != 'prefield', f'{nm} still holds the value of an earlier parse')
                elif nm == 'version' and v is not None and v.conc(): L.concrete(v.v != 7, 'version still holds the value of an earlier parse')
            L.concrete(all(not (isinstance(h, str) and h.startswith('pre')) for h in a.headers), 'an exposed header is left over from an earlier parse')
    viol = L.finish(common.predicted_json(E, I, b))
    for v in viol:
        v['rel'] = 'history'
        if sc0.kind == 'resp':
            hs = [b'HTTP/1.0 299 Pre\r\nX: y', b'HTTP/1.0 299 Pre\r\n\x01'] if cur == sc0.cap else [b'HTTP/1.0 299 Pre\r\n' + b'X: y\r\n' * cur + b'\r\n']
        else:
            hs = [b'PRE /pre HTTP/1.0\r\nX: y', b'PRE /pre HTTP/1.0\r\n\x01'] if cur == sc0.cap else [b'PRE /pre HTTP/1.0\r\n' + b'X: y\r\n' * cur + b'\r\n']
        v['history'] = [h.hex() for h in hs]
    lab = common.outcome_label(b)
    rec = {'outcome': lab, 'obligations': L.nobl, 'violations': viol, 'witnesses': {lab: 1, ('C+hdr' if b.status == 'C' and b.headers else lab): 1}}
    s = common.sample_of(E, I, b, f' | from pre-state: {common.outcome_label(a)}')
    if s: rec['sample'] = s
    common.add_validation(rec, E, I, b, params, cap=cur)
    return rec


def leaf_loop(E, params):
    """the documented loop on ONE value: arbitrary pre-state (as in `leaf`), then a parse of the first k bytes of the buffer (the same
    memory, so fields left by it point INTO the probe buffer), then the probe on the whole buffer -- versus a fresh value"""
    sc0 = Scenario(**params['scenario']); k = params['k']
    I = instantiate(E, sc0)
    S = E.programs[sc0.variant].structs
    ty = 'Request' if sc0.kind == 'req' else 'Response'
    fields = S[ty]
    cells = [[Ref([f'prename{i}'], (0,), 7, f'pre{i}'), Ref([f'preval{i}'], (0,), 6, f'pre{i}')] for i in range(sc0.cap)]
    pre = []
    for f in fields:
        if f == 'headers': pre.append(Ref(cells, (0,), sc0.cap, 'hdr'))
        elif f in ('method', 'path', 'reason'): pre.append(some(Ref([f'pre-{f}'], (0,), 5, 'prefield')))
        elif f == 'version': pre.append(some(IntV(8, 7)))
        elif f == 'code': pre.append(some(IntV(16, 777)))
        else: raise Exception('unknown field ' + f)
    a1 = run_impl(E, I, cells=cells, pre=pre, buflen=k)
    L = Leaf(E, I, params['prop']); a = b = None
    if a1.status == 'PANIC': L.concrete(False, f'panic: {a1.panic}')
    else:
        cur = a1.hdr_len
        a = run_impl(E, I, cells=cells, pre=list(a1.val))
        fresh_sc = Scenario(**dict(params['scenario'], cap=cur))
        b = run_impl(E, I, cells=make_cells(E, fresh_sc))
        if 'PANIC' in (a.status, b.status): L.concrete(False, f'panic: {a.panic or b.panic}')
        else:
            L.concrete(a.status == b.status and a.n == b.n, f'value reused after parsing the first {k} bytes: {a.status} n={a.n}; fresh value: {b.status} n={b.n}')
            if a.status == 'C' and b.status == 'C':
                cmp_obs(L, a, b, 0, f'reused (after the first {k} bytes) vs fresh: ')
                for nm, v in a.fields.items():
                    if isinstance(v, tuple): L.concrete(v[3] != 'prefield', f'{nm} still holds the value of an earlier parse')
                    elif nm == 'version' and v is not None and v.conc(): L.concrete(v.v != 7, 'version still holds the value of an earlier parse')
                L.concrete(all(not (isinstance(h, str) and h.startswith('pre')) for h in a.headers), 'an exposed header is left over from an earlier parse')
    o = b if b is not None else a1
    viol = L.finish(common.predicted_json(E, I, o))
    for v in viol:
        v['rel'] = 'history'
        # native history: something that leaves every field set (other memory), then the first k bytes of the probe buffer itself
        first = b'HTTP/1.0 299 Pre\r\nX: y\r\n\r\n' if sc0.kind == 'resp' else b'PRE /pre HTTP/1.0\r\nX: y\r\n\r\n'
        v['history'] = [first.hex(), first[:-2].hex() + '01', f'p{k}']
    lab = common.outcome_label(o)
    rec = {'outcome': lab, 'obligations': L.nobl, 'violations': viol, 'witnesses': {lab: 1, ('C+hdr' if o.status == 'C' and o.headers else lab): 1}}
    s = common.sample_of(E, I, o, f' | after the first {k} bytes: {common.outcome_label(a1)}')
    if s: rec['sample'] = s
    return rec


LOOP_TEMPLATES = [
    # (name, kind, prefix, nsym, suffix, flags): the symbolic bytes sit where a resumed parse would have to re-validate
    ('req-version', 'req', b'GET /b HTTP/1', 2, b'\r\nHost: b\r\n\r\n', F0),
    ('req-target', 'req', b'PUT /', 2, b' HTTP/1.0\nA: b\n\n', flags(multi_sp_req='sym')),
    ('req-method', 'req', b'', 2, b'T /x HTTP/1.1\r\nA: b\r\n\r\n', F0),
    ('req-header', 'req', b'GET / HTTP/1.1\r\nA', 2, b'b\r\nC: d\r\n\r\n', REQ_HDR_SYM),
    ('resp-code', 'resp', b'HTTP/1.1 2', 2, b' OK\r\nA: b\r\n\r\n', flags(multi_sp_resp='sym')),
    ('resp-version', 'resp', b'HTTP/1', 2, b' 204 No\r\nA: b\r\n\r\n', F0),
    ('resp-reason', 'resp', b'HTTP/1.0 404 N', 2, b't\r\nA: b\r\n\r\n', flags(multi_sp_resp='sym')),
    ('resp-header', 'resp', b'HTTP/1.1 200 OK\r\nA', 2, b'b\r\n c\r\nD: e\r\n\r\n', RESP_HDR_SYM),
]


def loop_jobs(P, G, tier):
    J = []
    for nm, kind, pre, ns, suf, fl in LOOP_TEMPLATES:
        ns = ns + (1 if tier == 'thorough' else 0)
        total = len(pre) + ns + len(suf)
        for k in range(0, total + 1):
            jb = product_job(P, f'loop-{nm}-k{k}', G, sc(kind, ns, prefix=pre, suffix=suf, api='cfg', fl=fl, cap=3), T(tier, 60, 300),
                             f'{kind} {pre!r} + {ns} symbolic bytes + {suf!r}: arbitrary pre-state, parse of the first {k} bytes (same memory), then the whole buffer, vs a fresh value',
                             family=f'loop-{nm}', mandatory=False, fn='mirse.props.c18.leaf_loop', extra={'k': k}, validate_every=0)
            jb.small = True; J.append(jb)
    return J


def jobs(tier, seed):
    P = 'C18'; G = ['history']; J = []
    bud = T(tier, 100, 900)
    for kind, pre, symfl in (('req', REQ_LINE, REQ_HDR_SYM), ('resp', RESP_LINE, RESP_HDR_SYM), ('resp', RESP_LINE_NOREASON, F0), ('req', REQ_LINE_LF, F0)):
        for cap, cur in ((2, 2), (2, 1), (1, 1)):
            if symfl is F0 and (cap, cur) != (2, 2): continue
            for fl in ((F0, symfl) if symfl is not F0 else (F0,)):
                symf = fl is not F0
                if symf and (cap, cur) == (2, 1): continue
                top = T(tier, 7, 9) - (2 if symf and kind == 'resp' else (1 if symf else 0))
                J += deepen(P, G, f'{kind}{len(pre)}-cap{cap}-len{cur}' + ('-opts' if symf else ''),
                            lambda n, kind=kind, pre=pre, fl=fl, cap=cap: sc(kind, n, prefix=pre, api='cfg', fl=fl, cap=cap),
                            range(top - T(tier, 0, 2), top + 1), bud, f'{kind} {pre!r} + ' + 'every {n}-byte header block' + f', array of {cap}, current headers length {cur}' + (', header options symbolic' if symf else ''),
                            top - 1, fn='mirse.props.c18.leaf', extra={'curlen': cur})
    J += deepen(P, G, 'reqline', lambda n: sc('req', n, api='cfg', fl=flags(multi_sp_req='sym'), cap=1), range(T(tier, 7, 5), T(tier, 7, 9) + 1), bud,
                'request, every {n}-byte buffer, array of 1', 6, fn='mirse.props.c18.leaf', extra={'curlen': 1})
    J += deepen(P, G, 'statusline', lambda n: sc('resp', n, api='cfg', fl=flags(multi_sp_resp='sym'), cap=1), range(T(tier, 10, 8), T(tier, 10, 13) + 1), bud,
                'response, every {n}-byte buffer, array of 1', 9, fn='mirse.props.c18.leaf', extra={'curlen': 1})
    for pre in (b'HTTP/1.1 204', b'HTTP/1.0 200 '):
        J += deepen(P, G, f'status-tail-{len(pre)}', lambda n, pre=pre: sc('resp', n, prefix=pre, api='cfg', fl=flags(multi_sp_resp='sym'), cap=1), range(T(tier, 6, 4), T(tier, 6, 8) + 1), bud,
                    f'response {pre!r} + ' + 'every {n}-byte remainder', 5, fn='mirse.props.c18.leaf', extra={'curlen': 1})
    J += loop_jobs(P, G, tier)
    return J
