"""C11 - honest Partial: for every buffer yielding Partial there is a continuation yielding Complete (modulo the two stated
deferrals).  For each Partial leaf the implementation is re-run on b.sigma for the completion candidates sigma of the state the
prefix can be in; the union of the Complete sub-leaves must cover the leaf's path condition (one z3 query per leaf)."""
import z3
from .jobs import *
from .. import sym
from ..engine import IntV
from ..harness import Scenario, instantiate, run_impl
from . import common
from .common import Leaf, URICH

REQUIRED_WITNESSES = ['P:completable']
BOUNDS = {'quick': 'Partial leaves of: parse_headers buffers to 7 bytes; message header blocks to 4-5 bytes with header options symbolic; fully symbolic request buffers to 6 and response buffers to 10 bytes; chunk-size buffers to 5 bytes; capacity 4 (so that the capacity deferral cannot arise)',
          'thorough': 'parse_headers to 9; header blocks to 7; start lines to 9 / 13; chunk sizes to 8'}
OUTSIDE = 'longer inputs; Partial leaves whose only obstacle is the deferred UTF-8 validity of an unterminated target are classified by a byte-class test of the target so far (all bytes in 0x21-0x7E/0x80-0xFF), as the property allows'
EXPLANATION = 'completion set Sigma: finish a pending CR, the remainder of the start line from every element on, finish the current header line, chunk-size terminators (about 30 strings); obligation per Partial leaf: path condition AND NOT (some sigma completes) is unsat'

HDR_SIG = [b'\n', b'\n\n', b':\n\n', b'a:\n\n']
REQ_SIG = HDR_SIG + [b'GET / HTTP/1.1\n\n', b'\nGET / HTTP/1.1\n\n', b' / HTTP/1.1\n\n', b'/ HTTP/1.1\n\n', b' HTTP/1.1\n\n'] + \
    [b'HTTP/1.1\n\n'[i:] for i in range(0, 8)]
RESP_SIG = HDR_SIG + [b'\nHTTP/1.1 200\n\n'] + [b'HTTP/1.1 200\n\n'[i:] for i in range(0, 12)]
CHUNK_SIG = [b'\r\n', b'\n', b'0\r\n']


def order_sigmas(kind, o, I):
    """most likely completions first, from what the call already reported"""
    if kind == 'headers': return HDR_SIG
    if kind == 'chunk': return CHUNK_SIG
    if kind == 'req':
        if o.fields.get('version') is not None: return HDR_SIG + REQ_SIG[len(HDR_SIG):]
        if o.fields.get('path') is not None: return REQ_SIG[len(HDR_SIG) + 5:] + REQ_SIG[:len(HDR_SIG) + 5]
        if o.fields.get('method') is not None: return [b' HTTP/1.1\n\n', b'/ HTTP/1.1\n\n'] + REQ_SIG
        return [b' / HTTP/1.1\n\n', b'GET / HTTP/1.1\n\n', b'\nGET / HTTP/1.1\n\n'] + REQ_SIG
    if o.fields.get('reason') is not None or o.fields.get('code') is not None: return HDR_SIG + RESP_SIG[len(HDR_SIG):]
    if o.fields.get('version') is not None: return [b' 200\n\n', b'200\n\n', b'00\n\n', b'0\n\n'] + RESP_SIG
    return RESP_SIG[len(HDR_SIG):] + HDR_SIG


def leaf(E, params):
    sc0 = Scenario(**params['scenario'])
    I = instantiate(E, sc0)
    o = run_impl(E, I)
    L = Leaf(E, I, params['prop'])
    label = common.outcome_label(o); tried = []
    if o.status == 'PANIC': L.concrete(False, f'panic: {o.panic}')
    elif o.status == 'P':
        covered = []; full = False
        sigmas = order_sigmas(sc0.kind, o, I)
        seen = set()
        for sg in sigmas:
            if sg in seen: continue
            seen.add(sg); tried.append(sg)
            ext = Inst2(I, sg)
            res = E.subexplore(lambda: run_impl(E, ext).status)
            comp = [conds for conds, st in res if st == 'C']
            if len(res) == 1 and comp and not comp[0]:
                full = True; break
            for conds in comp:
                covered.append(z3.And([sym.zexpr(c) for c in conds]) if conds else z3.BoolVal(True))
            if any(not c for c in comp): full = True; break
        if full:
            L.nobl += 1; label = 'P:completable'
        else:
            # residual region: not completed by any sigma. allowed only as the UTF-8 deferral of an unterminated target
            resid = z3.Not(z3.Or(covered)) if covered else z3.BoolVal(True)
            allowed = z3.BoolVal(False)
            if sc0.kind == 'req' and o.fields.get('method') is not None and o.fields.get('path') is None:
                m = o.fields['method']; start = m[1] + m[2] + 1
                cells = I.buf[start:]
                if cells:
                    # SP* (only with the multi-space option) then one or more target-class bytes up to the end of the buffer
                    fl = I.flags[2]; zfl = z3.BoolVal(fl.v) if fl.conc() else sym.zexpr(fl.v)
                    alts = []
                    for nsp in range(0, len(cells)):
                        parts = [common.zbyte(c) == 0x20 for c in cells[:nsp]] + [sym.zmask(common.zbyte(c), URICH) for c in cells[nsp:]]
                        a = z3.And(parts)
                        if nsp > 0: a = z3.And(zfl, a)
                        alts.append(a)
                    allowed = z3.Or(alts)
            L.zquery(f'Partial, but none of {len(tried)} completions reaches Complete and no stated deferral applies', z3.And(resid, z3.Not(allowed)))
            label = 'P:completable'
    viol = L.finish(common.predicted_json(E, I, o))
    for v in viol:
        v['rel'] = 'completable'; v['sigmas'] = [s.hex() for s in tried]
    rec = {'outcome': label, 'obligations': L.nobl, 'violations': viol, 'witnesses': {label: 1}}
    s = common.sample_of(E, I, o, f' completions tried: {len(tried)}')
    if s: rec['sample'] = s
    common.add_validation(rec, E, I, o, params)
    return rec


class Inst2:
    """the instance I with sigma appended to the buffer"""
    def __init__(self, I, sigma):
        self.sc = I.sc; self.buf = I.buf + [IntV(8, b) for b in sigma]; self.flags = I.flags
        self.symvars = I.symvars; self.flagvars = I.flagvars


def jobs(tier, seed):
    P = 'C11'; G = ['completable']; J = []
    kw = dict(fn='mirse.props.c11.leaf', validate_every=60)
    bud = T(tier, 150, 1200)
    J += deepen(P, G, 'headers', lambda n: sc('headers', n, cap=4), range(0, T(tier, 7, 9) + 1), bud, 'parse_headers, every {n}-byte buffer, capacity 4', 6, **kw)
    J += deepen(P, G, 'resp-hdr-opts', lambda n: sc('resp', n, prefix=RESP_LINE, api='cfg', fl=RESP_HDR_SYM, cap=4), range(2, T(tier, 4, 7) + 1), bud,
                'response start line + every {n}-byte header block, 4 header options symbolic, capacity 4', 4, **kw)
    J += deepen(P, G, 'req-hdr-opts', lambda n: sc('req', n, prefix=REQ_LINE, api='cfg', fl=REQ_HDR_SYM, cap=4), range(2, T(tier, 5, 7) + 1), bud,
                'request start line + every {n}-byte header block, 2 header options symbolic, capacity 4', 4, **kw)
    J += deepen(P, G, 'reqline', lambda n: sc('req', n, api='cfg', fl=flags(multi_sp_req='sym'), cap=4), range(0, T(tier, 6, 9) + 1), bud, 'request, every {n}-byte buffer', 6, **kw)
    J += deepen(P, G, 'reqline-tail', lambda n: sc('req', n, prefix=b'PUT /x ', api='cfg', fl=flags(multi_sp_req='sym'), cap=4), range(1, T(tier, 9, 11) + 1), bud, 'request "PUT /x " + every {n}-byte remainder', 8, **kw)
    J += deepen(P, G, 'statusline', lambda n: sc('resp', n, api='cfg', fl=flags(multi_sp_resp='sym'), cap=4), range(0, T(tier, 10, 13) + 1), bud, 'response, every {n}-byte buffer', 9, **kw)
    J += deepen(P, G, 'statusline-tail', lambda n: sc('resp', n, prefix=b'HTTP/1.0 ', api='cfg', fl=flags(multi_sp_resp='sym'), cap=4), range(1, T(tier, 6, 9) + 1), bud, 'response "HTTP/1.0 " + every {n}-byte remainder', 5, **kw)
    J += deepen(P, G, 'chunk', lambda n: sc('chunk', n), range(0, T(tier, 5, 7) + 1), bud, 'parse_chunk_size, every {n}-byte buffer', 4, **kw)
    return J
