"""C06 - request line: accepted language and reported method/path/version (product with the reference grammar)."""
from .jobs import *
REQUIRED_WITNESSES = ['C', 'P', 'E:Token', 'E:Version', 'E:NewLine']
BOUNDS = {'quick': 'every request buffer of 0..=8 bytes; split templates with 1..=5 (method, target) / 1..=8 (version and beyond) symbolic bytes; long 7-bit targets (SP excluded) 1..=24 bytes; multi-space option symbolic throughout; long runs (7, 8, 9, 16, 17, 33 bytes) of leading empty lines, method bytes and delimiter spaces with a 2-byte symbolic window at the start, middle and end of the run, a complete message behind',
          'thorough': 'every request buffer of 0..=11 bytes; split templates to 7 / 11 symbolic bytes; long 7-bit targets (SP excluded) to 64'}
OUTSIDE = 'longer request lines; non-ASCII bytes in targets longer than the split templates (UTF-8 forks per byte); SIMD back ends (C12/C13)'
ASSUMPTIONS = ['reference model /verif/refmodel transcribes the request-line grammar of the property text']
NOCTL = [b for b in range(256) if b < 0x80 and b != 0x20]


def jobs(tier, seed):
    P = 'C06'; G = ['ref']
    J = startline_families(P, G, tier, which=('req',))
    # long targets: every length, bytes restricted to 7-bit values (all 128 of them at every lane), concrete tail
    for L in (range(1, 25, 3) if tier == 'quick' else range(1, 65, 3)):
        J.append(product_job(P, f'target-ascii-L{L}', G, sc('req', L, prefix=b'X ', suffix=b' HTTP/1.1\r\n\r\n', api='parse', cap=1,
                             fixed={i: NOCTL for i in range(L)}), T(tier, 60, 300), f'"X " + {L} symbolic target bytes (any 7-bit value but SP) + " HTTP/1.1" CRLFCRLF',
                             family='target-ascii', mandatory=(L <= 10)))
    J += sliding_families(P, G, tier, step=T(tier, 2, 1), pool=('req-post', 'req-lf'), max_off=26)
    J += longrun_families(P, G, tier, ('lead-empty', 'method', 'req-sp1', 'req-sp2'))
    return J
