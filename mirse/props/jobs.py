"""Scenario / job builders shared by the property modules."""
from ..runner import Job
from .common import space_of

F0 = [False] * 7
REQ_LINE = b'GET / HTTP/1.1\r\n'
REQ_LINE_LF = b'POST /x HTTP/1.0\n'
RESP_LINE = b'HTTP/1.1 200 OK\r\n'
RESP_LINE_NOREASON = b'HTTP/1.0 404\n'


def flags(**kw):
    """flags(sp_after_name='sym', obs_fold=True, ...) -> list of 7"""
    from ..harness import FLAG_SHORT
    f = [False] * 7
    for k, v in kw.items(): f[FLAG_SHORT.index(k)] = v
    return f


RESP_HDR_SYM = flags(sp_after_name='sym', obs_fold='sym', sp_before_first='sym', ignore_resp='sym')
REQ_HDR_SYM = flags(sp_before_first='sym', ignore_req='sym')
ALL_SYM = ['sym'] * 7


def product_job(prop, name, groups, sc, budget, bound, family=None, mandatory=True, variants=None, xcheck_every=40,
                validate_every=25, expect_violation=False, fn='mirse.props.product.leaf', extra=None):
    sc = dict(sc)
    sc.setdefault('variant', 'swar-rel')
    params = {'variants': variants or [sc['variant']], 'scenario': sc, 'groups': groups, 'prop': prop,
              'xcheck_every': xcheck_every, 'validate_every': validate_every, 'space': space_of(sc)}
    if extra:
        params.update(extra)
        if extra.get('space_mul') and extra['space_mul'] != 1: params['space'] = None
    return Job(name, fn, params, budget, bound, family=family, mandatory=mandatory, groups=groups, expect_violation=expect_violation)


def sc(kind, nsym, prefix=b'', suffix=b'', api='cfg', fl=None, cap=1, cells='sentinel', variant='swar-rel', fixed=None):
    return dict(kind=kind, api=api, prefix=prefix, nsym=nsym, suffix=suffix, flags=list(fl or F0), cap=cap, cells=cells,
                variant=variant, fixed=fixed)


def deepen(P, G, name, mk, ns, budget, bound, mandatory_upto, **kw):
    """iterative deepening family: one job per n in ns (ascending); later ones are skipped if an earlier one does not finish"""
    out = []; ns = list(ns)
    # only the shallow bounds are mandatory: under load a run may stop deepening early and still report what it completed
    mand = min(mandatory_upto, (max(ns) - 2) if ns else 0)
    for n in ns:
        out.append(product_job(P, f'{name}-S{n}', G, mk(n), budget, bound.format(n=n), family=name, mandatory=(n <= mand), **kw))
    return out


def T(tier, q, t): return q if tier == 'quick' else t


def header_families(P, G, tier, scale=0, **kw):
    """the standard header-block scenario families. scale shifts the symbolic budget (assertion-heavy properties use -1)"""
    J = []
    q = lambda a, b: T(tier, a, b) + scale
    bud = T(tier, 150, 1200)
    J += deepen(P, G, 'hdr-cap3', lambda n: sc('headers', n, cap=3), range(0, q(10, 13) + 1), bud,
                'parse_headers, every {n}-byte buffer, capacity 3', 8, **kw)
    for cap in (0, 1):
        J += deepen(P, G, f'hdr-cap{cap}', lambda n, cap=cap: sc('headers', n, cap=cap), range(T(tier, 4, 0), q(8, 11) + 1), bud,
                    'parse_headers, every {n}-byte buffer, capacity %d' % cap, 7, **kw)
    for kind, pre in (('req', REQ_LINE), ('resp', RESP_LINE)):
        J += deepen(P, G, f'{kind}-default', lambda n, kind=kind, pre=pre: sc(kind, n, prefix=pre, api='parse', cap=2),
                    range(T(tier, 6, 4), q(7, 10) + 1), bud, kind + ' (parse, default config) start line ' + repr(pre) + ' + every {n}-byte header block, capacity 2', 6, **kw)
    J += deepen(P, G, 'resp-hdrflags', lambda n: sc('resp', n, prefix=RESP_LINE, api='cfg', fl=RESP_HDR_SYM, cap=1),
                range(T(tier, 4, 3), q(6, 8) + 1), T(tier, 200, 1800),
                'response, 4 header options symbolic (16 combinations at once), start line + every {n}-byte header block, capacity 1', 5, **kw)
    J += deepen(P, G, 'req-hdrflags', lambda n: sc('req', n, prefix=REQ_LINE, api='cfg', fl=REQ_HDR_SYM, cap=1),
                range(T(tier, 4, 3), q(7, 9) + 1), T(tier, 200, 1800),
                'request, 2 header options symbolic, start line + every {n}-byte header block, capacity 1', 5, **kw)
    J += deepen(P, G, 'resp-hdrflags-cap0', lambda n: sc('resp', n, prefix=RESP_LINE_NOREASON, api='cfg', fl=RESP_HDR_SYM, cap=0),
                range(T(tier, 5, 3), q(5, 7) + 1), T(tier, 120, 1200),
                'response "HTTP/1.0 404\\n", 4 header options symbolic, every {n}-byte header block, capacity 0', 4, **kw)
    J += neighbourhood_families(P, G, tier, **kw)
    return J


def neighbourhood_families(P, G, tier, default_flags=False, fl_override=None, tag='nb-', **kw):
    """short symbolic windows at the places where the header options act (before/after the colon, value start and end, line
    start, fold points), inside otherwise concrete messages, with the header options symbolic"""
    J = []
    top = T(tier, 3, 6); bud = T(tier, 80, 600)
    tm = [('colon', 'resp', RESP_LINE + b'Na', b'v\r\n\r\n', RESP_HDR_SYM), ('colon-req', 'req', REQ_LINE + b'Na', b'v\n\n', REQ_HDR_SYM),
          ('value-start', 'resp', RESP_LINE + b'N:', b'v\r\n\r\n', RESP_HDR_SYM), ('value-end', 'resp', RESP_LINE + b'N:v', b'\r\n\r\n', RESP_HDR_SYM),
          ('after-eol', 'resp', RESP_LINE + b'N:v\r\n', b'w\r\n\r\n', RESP_HDR_SYM), ('line-start', 'resp', RESP_LINE, b'N:v\r\n\r\n', RESP_HDR_SYM),
          ('second-line', 'req', REQ_LINE + b'A:b\r\n', b':v\r\n\r\n', REQ_HDR_SYM),
          # start-line windows followed by real headers (offsets of everything after the window depend on it)
          ('reason', 'resp', b'HTTP/1.1 200 ', b'A: b\nCc: d\n\n', flags(multi_sp_resp='sym')), ('reason-end', 'resp', b'HTTP/1.0 404 N', b'\nA: b\r\n\r\n', flags(multi_sp_resp='sym')),
          ('code', 'resp', b'HTTP/1.1 ', b' OK\r\nA: b\r\n\r\n', flags(multi_sp_resp='sym')),
          ('target', 'req', b'GET /', b' HTTP/1.1\nA: b\n\n', flags(multi_sp_req='sym')), ('version', 'req', b'PUT /a HTTP/1', b'A: b\r\n\r\n', flags(multi_sp_req='sym')),
          ('method', 'req', b'', b' / HTTP/1.1\r\nA: b\r\n\r\n', flags(multi_sp_req='sym')),
          # the same windows on the THIRD header line (state carried over from earlier lines, header count > 1)
          ('third-colon', 'resp', RESP_LINE + b'A: b\r\nCc: d\r\nNa', b'v\r\n\r\n', RESP_HDR_SYM), ('third-value-start', 'req', REQ_LINE + b'A: b\r\nCc: d\r\nN:', b'v\r\n\r\n', REQ_HDR_SYM),
          ('third-value-end', 'resp', RESP_LINE + b'A: b\r\nCc: d\r\nN:v', b'\r\n\r\n', RESP_HDR_SYM), ('third-line-start', 'resp', RESP_LINE + b'A: b\r\nCc: d\r\n', b'N:v\r\n\r\n', RESP_HDR_SYM)]
    for nm, kind, pre, suf, fl in tm:
        if default_flags: fl = F0
        if fl_override is not None: fl = fl_override(kind)
        J += deepen(P, G, tag + nm, lambda n, kind=kind, pre=pre, suf=suf, fl=fl, nm=nm: sc(kind, n, prefix=pre, suffix=suf, api='cfg', fl=fl, cap=(4 if nm.startswith('third') else 2)),
                    range(1, top + 1), bud, f'{kind} {pre!r} + ' + '{n} symbolic bytes + ' + f'{suf!r}' + ('' if default_flags else ', header options symbolic'), 3, **kw)
    return J


def startline_families(P, G, tier, which=('req', 'resp'), scale=0, **kw):
    J = []
    bud = T(tier, 150, 1500)
    q = lambda a, b: T(tier, a, b) + scale
    if 'req' in which:
        fl = flags(multi_sp_req='sym')
        J += deepen(P, G, 'reqline-full', lambda n: sc('req', n, api='cfg', fl=fl, cap=1), range(0, q(8, 11) + 1), bud,
                    'request, every {n}-byte buffer from the first byte (multi-space option symbolic)', 7, **kw)
        for pre, suf, top, nm in ((b'', b' / HTTP/1.1\r\n\r\n', q(5, 7), 'method'), (b'GET ', b' HTTP/1.1\n\n', q(5, 7), 'target'),
                                  (b'\r\n\nPUT /a ', b'', q(8, 11), 'version+'), (b'GET  /  ', b'', q(6, 9), 'version-ms')):
            J += deepen(P, G, 'reqline-' + nm, lambda n, pre=pre, suf=suf: sc('req', n, prefix=pre, suffix=suf, api='cfg', fl=fl, cap=1),
                        range(1, top + 1), bud, f'request {pre!r} + ' + '{n} symbolic bytes + ' + f'{suf!r} (multi-space option symbolic)', 4, **kw)
    if 'resp' in which:
        fl = flags(multi_sp_resp='sym')
        J += deepen(P, G, 'statusline-full', lambda n: sc('resp', n, api='cfg', fl=fl, cap=1), range(0, q(12, 15) + 1), bud,
                    'response, every {n}-byte buffer from the first byte (multi-space option symbolic)', 9, **kw)
        for pre, suf, top, nm in ((b'HTTP/1.1', b'\r\n\r\n', q(6, 8), 'code'), (b'\nHTTP/1.0 ', b'', q(7, 10), 'code+reason'),
                                  (b'HTTP/1.1 200', b'', q(7, 10), 'reason+'), (b'HTTP/1.1  404  ', b'\n\n', q(5, 7), 'reason-ms')):
            J += deepen(P, G, 'statusline-' + nm, lambda n, pre=pre, suf=suf: sc('resp', n, prefix=pre, suffix=suf, api='cfg', fl=fl, cap=1),
                        range(1, top + 1), bud, f'response {pre!r} + ' + '{n} symbolic bytes + ' + f'{suf!r} (multi-space option symbolic)', 4, **kw)
    return J


SLIDE_POOL = [
    ('req-post', 'req', b'POST /a/b?c=d HTTP/1.1\r\nHost: ex.org\r\nX-A:  v1 \r\nB:\r\n\r\n', 'req'),
    ('resp-fold', 'resp', b'HTTP/1.0 404 Not Found Here\r\nA: b\r\nLong-Name: val\r\n\tcont\r\n  more \r\nZ: 9\r\n\r\n', 'resp'),
    ('resp-ignore', 'resp', b'HTTP/1.1 200 OK\r\nbad line\r\nK : v\r\nOk: 1\r\n\r\n', 'resp'),
    ('req-lf', 'req', b'\r\n\nGET /x HTTP/1.0\nA:b\nC: d\n\n', 'req'),
]


def sliding_families(P, G, tier, default_flags=False, step=1, pool=None, max_off=None, cap=3, fl_override=None, tag='slide-', **kw):
    """a short symbolic window slid over every offset of a few realistic multi-header messages (all options of the message
    kind symbolic unless default_flags): every byte value at every position of a long message, in its real context"""
    J = []
    w = T(tier, 2, 4); bud = T(tier, 60, 300)
    for nm, kind, msg, _ in SLIDE_POOL:
        if pool and nm not in pool: continue
        if tier == 'quick':      # quick: the header options of the message kind; thorough: the multi-space option as well
            fl = F0 if default_flags else (REQ_HDR_SYM if kind == 'req' else RESP_HDR_SYM)
        else:
            fl = F0 if default_flags else ([f for f in flags(multi_sp_req='sym', sp_before_first='sym', ignore_req='sym')] if kind == 'req'
                                           else [f for f in flags(sp_after_name='sym', obs_fold='sym', multi_sp_resp='sym', sp_before_first='sym', ignore_resp='sym')])
        if fl_override is not None: fl = fl_override(kind)
        for off in range(0, (min(max_off, len(msg) - w) if max_off is not None else len(msg) - w) + 1, step):
            jb = product_job(P, f'{tag}{nm}-o{off}', G, sc(kind, w, prefix=msg[:off], suffix=msg[off + w:], api='cfg', fl=fl, cap=cap), bud,
                             f'{kind} message {nm} ({len(msg)} bytes) with bytes {off}..{off + w - 1} symbolic' + ('' if default_flags else ', options symbolic'),
                             family=f'{tag}{nm}', mandatory=False, validate_every=60, **kw)
            jb.small = True; J.append(jb)
    return J


# Long runs: every byte-wise loop of the grammar gets a run long enough that a block-wise / look-ahead fast path would engage (8, 16, 32
# bytes in view), with a short symbolic window inside the run and a complete message behind it. Added after round 6 of the seeded
# changes (DESIGN section 12): three independent agents introduced word-at-a-time fast paths into loops that were byte-wise.
LONGRUN = {
    'lead-empty':      ('req',  b'',                       b'\r\n', b'GET / HTTP/1.1\r\nA: b\r\n\r\n',  dict(multi_sp_req='sym')),
    'method':          ('req',  b'',                       b'M',    b' / HTTP/1.1\r\nA: b\r\n\r\n',     dict(multi_sp_req='sym')),
    'req-sp1':         ('req',  b'GET',                    b' ',    b'/x HTTP/1.1\r\nA: b\r\n\r\n',     dict(multi_sp_req='sym')),
    'req-sp2':         ('req',  b'GET /x',                 b' ',    b'HTTP/1.1\r\nA: b\r\n\r\n',        dict(multi_sp_req='sym')),
    'resp-lead-empty': ('resp', b'',                       b'\r\n', b'HTTP/1.1 200 OK\r\nA: b\r\n\r\n', dict(multi_sp_resp='sym')),
    'resp-sp1':        ('resp', b'HTTP/1.1',               b' ',    b'200 OK\r\nA: b\r\n\r\n',          dict(multi_sp_resp='sym')),
    'resp-sp2':        ('resp', b'HTTP/1.1 200',           b' ',    b'OK\r\nA: b\r\n\r\n',              dict(multi_sp_resp='sym')),
    'ows-run':         ('headers', b'N:',                  b' \t',  b'v\r\nB: c\r\n\r\n',                {}),
    'trail-ws-run':    ('headers', b'N: v',                b' ',    b'\r\nB: c\r\n\r\n',                 {}),
    'ignored-run':     ('resp', RESP_LINE + b'bad',        b'x',    b'\r\nA: b\r\n\r\n',                 dict(ignore_resp='sym', obs_fold='sym')),
    'ignored-run-req': ('req',  REQ_LINE + b'b d',         b'x',    b'\nA: b\n\n',                        dict(ignore_req='sym')),
    'fold-run':        ('resp', RESP_LINE + b'A: b\r\n ',  b'c',    b'\r\nD: e\r\n\r\n',                 dict(obs_fold='sym', ignore_resp='sym')),
    'fold-ws-run':     ('resp', RESP_LINE + b'A: b\r\n',   b' \t',  b'c\r\nD: e\r\n\r\n',                dict(obs_fold='sym', ignore_resp='sym')),
    'name-sp-run':     ('resp', RESP_LINE + b'N',          b' ',    b': v\r\n\r\n',                       dict(sp_after_name='sym', ignore_resp='sym')),
    'first-sp-run':    ('resp', RESP_LINE,                 b' \t',  b'N: v\r\n\r\n',                      dict(sp_before_first='sym', ignore_resp='sym')),
}


def longrun_families(P, G, tier, which, **kw):
    J = []
    w = T(tier, 2, 3)
    lengths = (7, 8, 9, 16, 17, 33) if tier == 'quick' else tuple(range(3, 41))
    for nm in which:
        kind, head, fill, tail, fl = LONGRUN[nm]
        for L in lengths:
            run = (fill * L)[:L]
            offs = sorted(set((0, L // 2, L - w))) if tier == 'quick' else range(0, L - w + 1)
            for off in offs:
                jb = product_job(P, f'run-{nm}-L{L}-o{off}', G, sc(kind, w, prefix=head + run[:off], suffix=run[off + w:] + tail, api='cfg', fl=flags(**fl), cap=3),
                                 T(tier, 60, 300), f'{kind} {head!r} + run of {L} x {fill!r} with bytes {off}..{off + w - 1} symbolic + {tail!r}',
                                 family=f'run-{nm}', mandatory=False, validate_every=60, **kw)
                jb.small = True; J.append(jb)
    return J
