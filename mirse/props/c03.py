"""C03 - head framing: Complete(n) ends exactly at the first empty line; Partial only while there is none."""
from .jobs import *
REQUIRED_WITNESSES = ['C', 'C+hdr', 'P']
BOUNDS = {'quick': 'parse_headers: every buffer to 10 bytes; requests/responses behind a concrete start line: every header block to 7 bytes (default config), to 6/7 bytes with all header options symbolic; fully symbolic start lines to 8 (request) / 12 (response) bytes; chunk sizes to 5 bytes',
          'thorough': 'parse_headers to 13 bytes; message header blocks to 10 (default) / 8-9 (options symbolic); start lines to 11 / 15; chunk sizes to 8'}
OUTSIDE = 'longer inputs; with allow_space_before_first_header_name the expected n is the reference parser\'s n, not the option-free linear scan'
EXPLANATION = 'n is compared on every path with an independent linear scan for the first empty line (refmodel::first_empty_line / head_end_message executed as MIR on the same symbolic bytes)'
ASSUMPTIONS = ['refmodel::head_end_message / first_empty_line transcribe "first empty line after the start line"']


def jobs(tier, seed):
    P = 'C03'; G = ['framing']
    J = header_families(P, G, tier)
    J += startline_families(P, G, tier)
    J += deepen(P, G, 'chunk', lambda n: sc('chunk', n), range(0, T(tier, 5, 8) + 1), T(tier, 60, 600), 'parse_chunk_size, every {n}-byte buffer', 4)
    # chunk-size lines whose extension / line end is symbolic, followed by a real CRLF (n must stop at the FIRST one)
    for nm, pre, suf, top in (('chunk-ext', b'1;', b'\r\n', 4), ('chunk-ext-tail', b'1f ;x', b'\r\nAB\r\n', 3), ('chunk-digits-tail', b'a', b'\r\n0\r\n', 3)):
        J += deepen(P, G, nm, lambda n, pre=pre, suf=suf: sc('chunk', n, prefix=pre, suffix=suf), range(1, T(tier, top, top + 2) + 1), T(tier, 60, 400),
                    f'parse_chunk_size {pre!r} + ' + '{n} symbolic bytes + ' + f'{suf!r}', 2)
    # with a header stored before: the space-before-first option must stop applying
    J += deepen(P, G, 'resp-after-header', lambda n: sc('resp', n, prefix=RESP_LINE + b'a:b\r\n', api='cfg', fl=RESP_HDR_SYM, cap=2),
                range(3, T(tier, 5, 7) + 1), T(tier, 100, 900), 'response, start line + "a:b" line + every {n}-byte remainder, 4 header options symbolic', 4)
    J += sliding_families(P, G, tier, step=T(tier, 4, 1), pool=T(tier, ('resp-fold',), None))
    # a header line longer than one / two vector widths, then the empty line, then a long body (vector scanners must not run past the line end)
    for variant in ('x86-avx2-ct', 'x86-sse42-ct', 'swar-rel'):
        for fill in (14, 31, 33, 47, 62):
            jb = product_job(P, f'longline-{variant}-{fill}', G, sc('resp', 2, prefix=b'HTTP/1.1 200 OK\r\nX-Token: ' + b'a' * fill, suffix=b'\r\n\r\n' + b'b' * 100, api='parse', cap=2, variant=variant),
                             T(tier, 60, 300), f'response with a header value of {fill}+2 bytes (2 symbolic) followed by the empty line and 100 body bytes ({variant})', family=f'longline-{variant}', mandatory=False)
            jb.small = True; J.append(jb)
    return J
