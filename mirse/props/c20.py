"""C20 - linear work: the parser moves strictly forward and re-reads no region more than a small constant number of times.
Instrumentation lives in the engine: T = sum of all Bytes::advance amounts, R[i] = number of loads of buffer byte i by anything
(scanner block loads, peeks, from_utf8, the trailing-trim iterator, ...), steps = MIR statements executed."""
import z3
from .jobs import *
from ..runner import Job
from ..engine import IntV
from ..harness import Scenario, instantiate, run_impl
from . import common
from .common import Leaf

REQUIRED_WITNESSES = ['C', 'P']
RMAX = 24          # 2*BLOCK + slack: a byte is re-peeked at most BLOCK times by the sliding word window (all-HTAB values), plus a scalar look,
                   # one trim / from_utf8 pass, one SIMD load; about 11-13 on the pinned tree
BOUNDS = {'quick': 'every path of: requests <= 7 bytes, responses <= 10, header blocks <= 7 bytes behind a start line (header options symbolic), parse_headers <= 9: T <= len, T == n on Complete, max R[i] <= %d. Adversarial families (k folded lines, k ignored lines, whitespace runs, all-HTAB values, near-miss words; structure concrete, selected bytes symbolic) at sizes k = 8,16,32,64: work(2k) <= 2*work(k) + constant for reads and MIR steps' % RMAX,
          'thorough': 'sweeps two bytes deeper; families to k = 128'}
OUTSIDE = 'wall-clock time; buffers beyond the family sizes (the doubling criterion is what rules out super-linear growth)'
EXPLANATION = 'exact: cursor travel equals the consumed length (no region consumed twice, no rewinding); bounded: per-byte read count; growth: doubling the adversarial input at most doubles reads and steps'


def install_counters(E, I):
    cnt = {'T': 0, 'R': {}, 'adv_calls': 0}
    buf = I.buf

    def on_call(path, f, args):
        if f is not None and f.name.endswith('::advance') and 'iter' in f.name: cnt['adv_calls'] += 1

    def on_ptr_add(r, n):
        # the pointer addition performed inside Bytes::advance (n is concrete here: a symbolic amount has been case-split)
        if len(E.gstack) >= 2 and E.gstack[-2].endswith('::advance') and r.alloc == 'buf': cnt['T'] += n
    E.hooks['ptr_add'] = on_ptr_add

    def on_read(c, k):
        if c is buf: cnt['R'][k] = cnt['R'].get(k, 0) + 1

    def on_readn(c, k, n):
        if c is buf:
            for i in range(k, k + n): cnt['R'][i] = cnt['R'].get(i, 0) + 1
    E.hooks['call'] = on_call; E.hooks['read'] = on_read; E.hooks['readn'] = on_readn
    return cnt


def remove_counters(E):
    for k in ('call', 'read', 'readn', 'ptr_add'): E.hooks.pop(k, None)


def leaf(E, params):
    sc0 = Scenario(**params['scenario'])
    I = instantiate(E, sc0)
    cnt = install_counters(E, I)
    s0 = E.steps
    try:
        o = run_impl(E, I)
    finally:
        remove_counters(E)
    steps = E.steps - s0
    L = Leaf(E, I, params['prop'])
    n = len(I.buf); maxr = max(cnt['R'].values()) if cnt['R'] else 0; reads = sum(cnt['R'].values())
    if o.status == 'PANIC': L.concrete(False, f'panic: {o.panic}')
    else:
        L.concrete(cnt['T'] <= n, f'cursor travel {cnt["T"]} exceeds the buffer length {n}: some region is consumed more than once')
        if o.status == 'C': L.concrete(cnt['T'] == o.n, f'cursor travel {cnt["T"]} differs from the consumed length n={o.n}: the cursor was rewound or moved by something else')
        L.concrete(maxr <= RMAX, f'buffer byte {max(cnt["R"], key=cnt["R"].get) if cnt["R"] else None} is read {maxr} times (> {RMAX})')
    viol = L.finish(common.predicted_json(E, I, o))
    for v in viol:
        if params.get('family'): v['rel'] = 'work'; v['family'] = params['family']
        else: v['rel'] = 'work_counter'
    lab = common.outcome_label(o)
    rec = {'outcome': lab, 'obligations': L.nobl, 'violations': viol, 'witnesses': {lab: 1},
           'extra': {'max_reads_per_byte': {'all': maxr}}}
    fam = params.get('family')
    if fam:
        rec['extra']['work'] = {f'{fam}|{params["k"]}|reads': reads, f'{fam}|{params["k"]}|steps': steps, f'{fam}|{params["k"]}|len': n}
    s = common.sample_of(E, I, o, f' T={cnt["T"]} reads={reads} maxR={maxr} steps={steps}')
    if s: rec['sample'] = s
    common.add_validation(rec, E, I, o, params)
    return rec


def families(tier):
    """(name, flags, kind, builder k -> (prefix, nsym, suffix)) : adversarial shapes; a few bytes symbolic so that the scanners' and the
    grammar's branches on them are solver-decided, the rest concrete"""
    out = []
    out.append(('folded-ws-lines', flags(obs_fold=True), 'resp', lambda k: (RESP_LINE + b'X: a\r\n' + b'  \r\n' * k, 2, b'\r\n')))
    out.append(('folded-text-lines', flags(obs_fold=True), 'resp', lambda k: (RESP_LINE + b'X: a\r\n' + b' b\r\n' * k, 2, b'\r\n')))
    out.append(('ignored-lines', flags(ignore_resp=True), 'resp', lambda k: (RESP_LINE + b'bad\r\n' * k, 2, b'\r\n')))
    out.append(('ignored-lines-req', flags(ignore_req=True), 'req', lambda k: (REQ_LINE + b'b d:\x01\n' * k, 2, b'\n')))
    out.append(('ws-after-colon', F0, 'headers', lambda k: (b'N:' + b' \t' * (2 * k), 2, b'v\r\n\r\n')))
    out.append(('htab-value', F0, 'headers', lambda k: (b'N: x' + b'\t' * (4 * k), 2, b'x\r\n\r\n')))
    out.append(('trailing-ws-value', F0, 'headers', lambda k: (b'N: x' + b' ' * (4 * k), 2, b'\r\n\r\n')))
    out.append(('near-miss-words', F0, 'headers', lambda k: (b'N: ' + b'aaaaaaa\t' * (k // 2 + 1), 2, b'\r\n\r\n')))
    out.append(('many-headers', F0, 'headers', lambda k: (b'a:b\n' * min(k, 3), 2, b'\n')))
    out.append(('long-target', F0, 'req', lambda k: (b'GET /' + b'a' * (4 * k), 2, b' HTTP/1.1\r\n\r\n')))
    out.append(('leading-empty-lines', F0, 'req', lambda k: (b'\r\n' * (2 * k), 2, b'GET / HTTP/1.1\r\n\r\n')))
    out.append(('spaces-before-first', flags(sp_before_first=True), 'resp', lambda k: (RESP_LINE + b' \t' * (2 * k), 2, b'a:b\r\n\r\n')))
    out.append(('multi-space-delims', flags(multi_sp_resp=True), 'resp', lambda k: (b'HTTP/1.1' + b' ' * (2 * k) + b'200' + b' ' * (2 * k), 2, b'OK\r\n\r\n')))
    out.append(('chunk-extension', F0, 'chunk', lambda k: (b'1f;' + b'x' * (4 * k), 2, b'\r\n')))
    # round-6 additions: every remaining loop of the grammar gets a family of its own
    out.append(('spaces-after-name', flags(sp_after_name=True), 'resp', lambda k: (RESP_LINE + b'N' + b' \t' * (2 * k), 2, b':v\r\n\r\n')))
    out.append(('long-reason', F0, 'resp', lambda k: (b'HTTP/1.1 200 ' + b'a b\t' * k, 2, b'\r\n\r\n')))
    out.append(('long-name', F0, 'headers', lambda k: (b'n' * (4 * k), 2, b':v\r\n\r\n')))
    out.append(('multi-space-delims-req', flags(multi_sp_req=True), 'req', lambda k: (b'GET' + b' ' * (2 * k) + b'/x' + b' ' * (2 * k), 2, b'HTTP/1.1\r\n\r\n')))
    out.append(('long-ignored-line', flags(ignore_resp=True), 'resp', lambda k: (RESP_LINE + b'b' * (4 * k), 2, b'\r\nc\r\n\r\n')))
    out.append(('ws-only-value', F0, 'headers', lambda k: (b'N:' + b' \t' * (2 * k), 2, b'\r\n\r\n')))
    out.append(('folded-trailing-ws', flags(obs_fold=True), 'resp', lambda k: (RESP_LINE + b'X: a\r\n' + b' b  \r\n' * k, 2, b'\r\n')))
    out.append(('chunk-ws', F0, 'chunk', lambda k: (b'1f' + b' \t' * (2 * k), 2, b'\r\n')))
    # work that depends on what lies BEHIND the head (body bytes in the same buffer): many header lines followed by a long blank body
    out.append(('blank-body', F0, 'headers', lambda k: (b'a:b\n' * k, 2, b'\n' + b' \t\r\n' * k), lambda k: k + 2))
    out.append(('blank-body-req', F0, 'req', lambda k: (REQ_LINE + b'a: b\r\n' * k, 2, b'\r\n' + b' ' * (4 * k)), lambda k: k + 2))
    out.append(('header-count', F0, 'headers', lambda k: (b'a:b\n' * k, 2, b'\n'), lambda k: k + 2))
    return out


def jobs(tier, seed):
    P = 'C20'; G = ['work']; J = []
    kw = dict(fn='mirse.props.c20.leaf', validate_every=40)
    bud = T(tier, 100, 900)
    J += deepen(P, G, 'req', lambda n: sc('req', n, api='cfg', fl=flags(multi_sp_req='sym'), cap=2), range(T(tier, 6, 5), T(tier, 7, 9) + 1), bud, 'request, every {n}-byte buffer', 6, **kw)
    J += deepen(P, G, 'resp', lambda n: sc('resp', n, api='cfg', fl=flags(multi_sp_resp='sym'), cap=2), range(T(tier, 9, 8), T(tier, 10, 12) + 1), bud, 'response, every {n}-byte buffer', 9, **kw)
    J += deepen(P, G, 'resp-hdr', lambda n: sc('resp', n, prefix=RESP_LINE, api='cfg', fl=RESP_HDR_SYM, cap=3), range(T(tier, 5, 4), T(tier, 6, 8) + 1), bud, 'response start line + every {n}-byte header block, 4 header options symbolic', 5, **kw)
    J += deepen(P, G, 'req-hdr', lambda n: sc('req', n, prefix=REQ_LINE, api='cfg', fl=REQ_HDR_SYM, cap=3), range(T(tier, 6, 4), T(tier, 7, 9) + 1), bud, 'request start line + every {n}-byte header block, 2 header options symbolic', 6, **kw)
    J += deepen(P, G, 'headers', lambda n: sc('headers', n, cap=3), range(T(tier, 8, 6), T(tier, 9, 11) + 1), bud, 'parse_headers, every {n}-byte buffer', 8, **kw)
    J += deepen(P, G, 'resp-hdr-simd', lambda n: sc('resp', n, prefix=RESP_LINE, api='cfg', fl=RESP_HDR_SYM, cap=3, variant='x86-rt'), range(T(tier, 5, 4), T(tier, 5, 7) + 1), bud, 'response (runtime-dispatch build) start line + every {n}-byte header block', 4, **kw)
    ks = [8, 16, 32, 64] + ([128] if tier == 'thorough' else [])
    for fam in families(tier):
        name, fl, kind, mk = fam[:4]
        capf = fam[4] if len(fam) > 4 else (lambda k: 4)
        for variant in ('swar-rel', 'x86-rt'):
            for k in ks:
                pre, ns, suf = mk(k)
                s = sc(kind, ns, prefix=pre, suffix=suf, api='cfg', fl=fl, cap=capf(k), variant=variant)
                jb = product_job(P, f'fam-{name}-{variant}-k{k}', G, s, bud, f'family {name} ({variant}) at size k={k}: {len(pre) + ns + len(suf)} bytes, {ns} symbolic', family=f'fam-{name}-{variant}',
                                 fn='mirse.props.c20.leaf', extra={'family': f'{name}@{variant}', 'k': k}, validate_every=0, xcheck_every=0)
                jb.small = True; J.append(jb)
    return J


def main(pid, tier, seed):
    from .. import runner

    def post(total):
        work = total.extra.get('work', {}); msgs = []; viol = []; table = {}
        fams = sorted(set(k.split('|')[0] for k in work))
        for fam in fams:
            ks = sorted(set(int(k.split('|')[1]) for k in work if k.startswith(fam + '|')))
            row = {}
            for k in ks: row[k] = {m: work.get(f'{fam}|{k}|{m}') for m in ('len', 'reads', 'steps')}
            table[fam] = row
            for a, b in zip(ks, ks[1:]):
                if b != 2 * a: continue
                # below two AVX2 vector widths the amount of look-ahead a scanner can do is limited by the buffer end, so the smaller
                # input is cheaper per byte than any longer one (a boundary effect, not growth): such a pair is tabulated, not judged
                if row[a]['len'] < 64: continue
                for m, C in (('reads', 256), ('steps', 4000)):
                    wa, wb = row[a][m], row[b][m]
                    la, lb = row[a]['len'], row[b]['len']
                    # inputs do not exactly double in length (fixed head/tail): scale by the length ratio
                    ratio = max(2.0, lb / max(1, la))
                    if wb > ratio * wa + C:
                        viol.append({'prop': 'C20', 'msg': f'super-linear work on family {fam}: {m} {wa} at k={a} ({la} bytes) but {wb} at k={b} ({lb} bytes) > {ratio:.2f}x + {C}',
                                     'scenario': f'family {fam}', 'kind': 'work', 'api': '-', 'variant': fam.split('@')[1], 'flags': 0, 'cap': 4, 'buf': '', 'predicted': None,
                                     'rel': 'work', 'family': fam, 'ka': a, 'kb': b, 'groups': []})
        if not table: msgs.append('no work measurements collected')
        return viol, msgs, {'work_growth_table': table, 'max_reads_per_byte_observed': total.extra.get('max_reads_per_byte', {}).get('all')}
    return runner.run_property(pid, tier, seed, post=post)
