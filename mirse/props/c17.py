"""C17 - header storage: exact count, capacity law, untouched and never-uninit slots."""
from .jobs import *
REQUIRED_WITNESSES = ['C', 'C+hdr', 'P', 'E:TooManyHeaders', 'E:HeaderName']
BOUNDS = {'quick': 'request/response via all four entry-point flavours (initialised arrays pre-filled with sentinels, uninit arrays), capacities 0..3, header blocks to 7 bytes (default) / 6 (options symbolic); parse_headers to 9 bytes; capacity law: capacity c in 0..2 versus capacity 3',
          'thorough': 'header blocks to 9 / 8; parse_headers to 12'}
OUTSIDE = 'capacities above 3 (3 already exceeds the number of header lines that fit in the explored lengths minus one)'
EXPLANATION = 'the header array is modelled cell by cell (sentinel headers / uninit); count, untouched slots, restore-on-failure, uninit exposure are concrete facts per path; the capacity law compares two implementation runs (capacity c and 3) on the same symbolic bytes'


def jobs(tier, seed):
    P = 'C17'; G = ['storage']
    J = []
    top = T(tier, 7, 9)
    for kind, pre in (('req', REQ_LINE), ('resp', RESP_LINE)):
        for api in ('parse', 'cfg', 'uninit', 'cfg_uninit'):
            if kind == 'resp' and api == 'uninit': continue    # Response has no parse_with_uninit_headers
            for cap in ((0, 1, 2) if api in ('parse', 'cfg_uninit') else (1,)):
                symfl = api in ('cfg', 'cfg_uninit')
                fl = (REQ_HDR_SYM if kind == 'req' else RESP_HDR_SYM) if symfl else F0
                tp = top - (1 if symfl else 0) - (1 if (symfl and kind == 'resp') else 0)
                J += deepen(P, G, f'{kind}-{api}-cap{cap}', lambda n, kind=kind, pre=pre, api=api, cap=cap, fl=fl: sc(kind, n, prefix=pre, api=api, fl=fl, cap=cap),
                            range(tp - T(tier, 0, 2), tp + 1), T(tier, 100, 900),
                            f'{kind} via {api}, capacity {cap}, ' + ('header options symbolic, ' if symfl else '') + 'start line + every {n}-byte header block', tp - 1)
    J += deepen(P, G, 'parse_headers-cap1', lambda n: sc('headers', n, cap=1), range(4, T(tier, 9, 12) + 1), T(tier, 100, 900), 'parse_headers, capacity 1, every {n}-byte buffer', 8)
    J += deepen(P, G, 'parse_headers-cap3', lambda n: sc('headers', n, cap=3), range(T(tier, 9, 9), T(tier, 9, 12) + 1), T(tier, 100, 900), 'parse_headers, capacity 3, every {n}-byte buffer', 8)
    # capacity law
    for kind, pre in (('req', REQ_LINE), ('resp', RESP_LINE)):
        for c in (0, 1, 2):
            J += deepen(P, ['storage'], f'caplaw-{kind}-{c}v3', lambda n, kind=kind, pre=pre, c=c: sc(kind, n, prefix=pre, api='parse', cap=c),
                        range(T(tier, 7, 7), T(tier, 7, 9) + 1), T(tier, 100, 900), f'{kind}: capacity {c} versus capacity 3 on ' + 'every {n}-byte header block', 6,
                        fn='mirse.props.c17.leaf_caplaw')
    J += sliding_families(P, G, tier, step=T(tier, 3, 1), pool=T(tier, ('req-post', 'resp-fold'), None))
    J += sliding_families(P, G, tier, step=T(tier, 5, 2), pool=('req-post',), cap=2)
    return J


def leaf_caplaw(E, params):
    """outcome with capacity c equals outcome with capacity 3 unless the (c+1)-th header line completes first -> TooManyHeaders"""
    from ..harness import Scenario, instantiate, run_impl
    from . import common
    from .common import Leaf
    sc0 = Scenario(**params['scenario'])
    I = instantiate(E, sc0)
    o = run_impl(E, I)
    big = Scenario(**dict(params['scenario'], cap=3))
    from ..harness import make_cells
    o3 = run_impl(E, I, cells=make_cells(E, big))
    L = Leaf(E, I, params['prop'])
    if 'PANIC' in (o.status, o3.status):
        L.concrete(False, f'panic: {o.panic or o3.panic}')
    elif o.status == 'E:TooManyHeaders':
        # unlimited capacity must have stored more than c headers (or itself run out at 3 > c)
        stored3 = sum(1 for cell in o3.cells if cell is not common.UNINIT and not str(cell[0].alloc).startswith('old'))
        L.concrete(o3.status == 'E:TooManyHeaders' or stored3 > sc0.cap,
                   f'TooManyHeaders with capacity {sc0.cap} although only {stored3} header line(s) complete with capacity 3 (which ends {o3.status})')
    else:
        L.concrete(o.status == o3.status and o.n == o3.n, f'capacity {sc0.cap}: {o.status} n={o.n}; capacity 3: {o3.status} n={o3.n}')
        if o.status == 'C' and o3.status == 'C':
            L.concrete([h for h in o.headers] == [h for h in o3.headers], 'headers differ between capacities')
        if o3.status == 'C':
            L.concrete(len(o3.headers) <= sc0.cap or o.status == 'E:TooManyHeaders', f'{len(o3.headers)} headers fit into capacity {sc0.cap}?')
    viol = L.finish(common.predicted_json(E, I, o))
    for v in viol: v['rel'] = 'caplaw'
    rec = {'outcome': common.outcome_label(o), 'obligations': L.nobl, 'violations': viol, 'witnesses': {common.outcome_label(o): 1}}
    s = common.sample_of(E, I, o, f' | cap3: {o3.status}')
    if s: rec['sample'] = s
    return rec
