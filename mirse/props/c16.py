"""C16 - all entry points agree: parse, with-config, the uninit variants, and parse_headers versus the header part of a message."""
import z3
from .jobs import *
from .. import sym
from ..harness import Scenario, instantiate, run_impl, make_cells
from . import common
from .common import Leaf
from .c02 import same_field

REQUIRED_WITNESSES = ['C', 'C+hdr', 'P', 'E:HeaderName']
BOUNDS = {'quick': 'pairs (parse, cfg[default flags]), (cfg, cfg_uninit)[flags symbolic], (parse, uninit) for requests; (parse, cfg), (cfg, cfg_uninit) for responses: header blocks to 7 bytes (default) / 5-6 (options symbolic), start lines to 7 / 10 bytes; parse_headers(h) versus request/response start line + h: h to 8 bytes; capacities 0..2',
          'thorough': 'header blocks to 9 / 7-8; start lines to 9 / 13; h to 10'}
OUTSIDE = 'longer inputs; Response has no parse_with_uninit_headers, so the response family has three members'
EXPLANATION = 'two implementation runs on the same symbolic bytes (fresh Request/Response and header array each; uninitialised array for the uninit flavours); status, n, every field and every header must be equal on every path'


def cmp_obs(L, a, b, shift=0, what=''):
    if 'PANIC' in (a.status, b.status):
        L.concrete(False, f'panic: {a.panic or b.panic}'); return
    L.concrete(a.status == b.status, f'{what}status {a.status} vs {b.status}')
    if a.status != b.status: return
    if a.status == 'C': L.concrete(a.n == b.n + shift, f'{what}n {a.n} vs {b.n}+{shift}')
    for nm in a.fields:
        if nm == 'headers_same_as_before' or nm not in b.fields: continue
        same_field(L, what + nm, a.fields[nm], b.fields[nm])
    if a.status == 'C':
        ha = a.headers; hb = b.headers
        L.concrete(len(ha) == len(hb), f'{what}header count {len(ha)} vs {len(hb)}')
        for x, y in zip(ha, hb):
            if isinstance(x, str) or isinstance(y, str): L.concrete(x == y, f'{what}header cell {x} vs {y}'); continue
            (ni, no, nl, _), (vi, vo, vl, _) = x
            (ni2, no2, nl2, _), (vi2, vo2, vl2, _) = y
            L.concrete((no, nl) == (no2 + shift, nl2) and vl == vl2 and (vl == 0 or vo == vo2 + shift), f'{what}header {x} vs {y} (shift {shift})')


def leaf_pair(E, params):
    sc0 = Scenario(**params['scenario']); api2 = params['api2']
    I = instantiate(E, sc0)
    a = run_impl(E, I)
    sc2 = Scenario(**dict(params['scenario'], api=api2))
    fl2 = None
    if api2 in ('parse', 'uninit'): fl2 = None     # default flags are implied by the entry point
    b = run_impl(E, I, api=api2, cells=make_cells(E, sc2))
    L = Leaf(E, I, params['prop'])
    cmp_obs(L, a, b, 0, f'{sc0.api} vs {api2}: ')
    viol = L.finish(common.predicted_json(E, I, a))
    for v in viol:
        bits = v['flags']
        v['rel'] = 'same'
        v['runs'] = [{'entry': common.entry_name(sc0.kind, sc0.api), 'flags': bits, 'cap': sc0.cap, 'buf': v['buf']},
                     {'entry': common.entry_name(sc0.kind, api2), 'flags': bits, 'cap': sc0.cap, 'buf': v['buf']}]
    lab = common.outcome_label(a)
    if a.status == 'C' and a.headers: lab2 = 'C+hdr'
    else: lab2 = lab
    rec = {'outcome': lab, 'obligations': L.nobl, 'violations': viol, 'witnesses': {lab: 1, lab2: 1}}
    s = common.sample_of(E, I, a, f' | {api2}: {common.outcome_label(b)}')
    if s: rec['sample'] = s
    common.add_validation(rec, E, I, b, params, api=api2)
    return rec


def leaf_headers_vs_message(E, params):
    """parse_headers(h) versus request/response whose concrete start line is followed by the same symbolic h"""
    scm = Scenario(**params['scenario'])         # the message scenario (prefix = start line)
    I = instantiate(E, scm)
    m = run_impl(E, I)
    sch = Scenario(**dict(params['scenario'], kind='headers', prefix=b'', api='cfg'))
    Ih = common_inst_suffix(I, len(scm.prefix), sch)
    h = run_impl(E, Ih, cells=make_cells(E, sch))
    L = Leaf(E, I, params['prop'])
    if 'PANIC' in (m.status, h.status): L.concrete(False, f'panic: {m.panic or h.panic}')
    else:
        L.concrete(m.status == h.status, f'message {m.status} vs parse_headers {h.status}')
        if m.status == 'C' and h.status == 'C':
            sh = len(scm.prefix)
            L.concrete(m.n == h.n + sh, f'n: message {m.n} vs parse_headers {h.n}+{sh}')
            L.concrete(len(m.headers) == len(h.headers), f'header count {len(m.headers)} vs {len(h.headers)}')
            for x, y in zip(m.headers, h.headers):
                if isinstance(x, str) or isinstance(y, str): L.concrete(False, f'cell {x} vs {y}'); continue
                L.concrete((x[0][1], x[0][2]) == (y[0][1] + sh, y[0][2]) and x[1][2] == y[1][2] and (x[1][2] == 0 or x[1][1] == y[1][1] + sh),
                           f'header differs: message {x} vs parse_headers {y} (+{sh})')
    viol = L.finish(common.predicted_json(E, I, m))
    for v in viol:
        v['rel'] = 'hdr_vs_msg'; v['prefix_len'] = len(scm.prefix)
    lab = common.outcome_label(m)
    rec = {'outcome': lab, 'obligations': L.nobl, 'violations': viol, 'witnesses': {lab: 1, ('C+hdr' if m.status == 'C' and m.headers else lab): 1}}
    s = common.sample_of(E, I, m, f' | parse_headers: {common.outcome_label(h)}')
    if s: rec['sample'] = s
    return rec


class common_inst_suffix:
    """view of instance I whose buffer starts at offset `skip` (shares the symbolic cells)"""
    def __init__(self, I, skip, sc):
        self.sc = sc; self.buf = I.buf[skip:]; self.flags = I.flags; self.symvars = I.symvars; self.flagvars = I.flagvars


def jobs(tier, seed):
    P = 'C16'; G = ['same']; J = []
    bud = T(tier, 100, 900)
    pairs = [('req', 'parse', 'cfg', F0), ('req', 'cfg', 'cfg_uninit', REQ_HDR_SYM), ('req', 'parse', 'uninit', F0), ('req', 'uninit', 'cfg_uninit', F0),
             ('resp', 'parse', 'cfg', F0), ('resp', 'cfg', 'cfg_uninit', RESP_HDR_SYM)]
    for kind, a1, a2, fl in pairs:
        pre = REQ_LINE if kind == 'req' else RESP_LINE
        symf = fl is not F0
        top = T(tier, 7, 9) - (2 if symf and kind == 'resp' else (1 if symf else 0))
        for cap in ((0, 2) if not symf else (1,)):
            J += deepen(P, G, f'{kind}-{a1}-vs-{a2}-cap{cap}', lambda n, kind=kind, pre=pre, a1=a1, fl=fl, cap=cap: sc(kind, n, prefix=pre, api=a1, fl=fl, cap=cap),
                        range(top - T(tier, 0, 2), top + 1), bud, f'{kind}: {a1} vs {a2}, capacity {cap}, ' + ('header options symbolic, ' if symf else '') + 'start line + every {n}-byte header block',
                        top - 1, fn='mirse.props.c16.leaf_pair', extra={'api2': a2})
    # start lines through both flavours (multi-space flag symbolic on the cfg side requires cfg on both sides)
    J += deepen(P, G, 'reqline-cfg-vs-cfg_uninit', lambda n: sc('req', n, api='cfg', fl=flags(multi_sp_req='sym'), cap=1), range(T(tier, 7, 5), T(tier, 7, 9) + 1), bud,
                'request: cfg vs cfg_uninit on every {n}-byte buffer (multi-space option symbolic)', 6, fn='mirse.props.c16.leaf_pair', extra={'api2': 'cfg_uninit'})
    J += deepen(P, G, 'reqline-parse-vs-uninit', lambda n: sc('req', n, api='parse', cap=1), range(T(tier, 7, 5), T(tier, 7, 9) + 1), bud,
                'request: parse vs parse_with_uninit_headers on every {n}-byte buffer', 6, fn='mirse.props.c16.leaf_pair', extra={'api2': 'uninit'})
    J += deepen(P, G, 'statusline-cfg-vs-cfg_uninit', lambda n: sc('resp', n, api='cfg', fl=flags(multi_sp_resp='sym'), cap=1), range(T(tier, 10, 8), T(tier, 10, 13) + 1), bud,
                'response: cfg vs cfg_uninit on every {n}-byte buffer (multi-space option symbolic)', 9, fn='mirse.props.c16.leaf_pair', extra={'api2': 'cfg_uninit'})
    J += deepen(P, G, 'statusline-parse-vs-cfg', lambda n: sc('resp', n, api='parse', cap=1), range(T(tier, 10, 8), T(tier, 10, 13) + 1), bud,
                'response: parse vs cfg(default) on every {n}-byte buffer', 9, fn='mirse.props.c16.leaf_pair', extra={'api2': 'cfg'})
    for kind, pre in (('req', REQ_LINE), ('resp', RESP_LINE), ('req', REQ_LINE_LF), ('resp', RESP_LINE_NOREASON)):
        for cap in (1, 2):
            if cap == 2 and pre in (REQ_LINE, RESP_LINE): continue
            J += deepen(P, G, f'headers-vs-{kind}{len(pre)}-cap{cap}', lambda n, kind=kind, pre=pre, cap=cap: sc(kind, n, prefix=pre, api='parse', cap=cap),
                        range(T(tier, 8, 6), T(tier, 8, 10) + 1), bud, f'parse_headers(h) vs {kind} {pre!r}+h, capacity {cap}, ' + 'every {n}-byte h', 7,
                        fn='mirse.props.c16.leaf_headers_vs_message')
    return J
