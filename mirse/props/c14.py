"""C14 - leniency options widen the header grammar exactly as documented, never past NUL / lone CR."""
from .jobs import *
REQUIRED_WITNESSES = ['C', 'C+hdr', 'P', 'E:HeaderName', 'E:HeaderValue']
BOUNDS = {'quick': 'responses: all 16 header-option combinations at once, every header block to 6 bytes (capacity 1) / 5 (capacity 0); requests: 4 combinations to 7 bytes; each option alone to 7-8 bytes; folded / ignored-line templates; long runs (7..33 bytes) of ignored-line bytes, folded-line bytes and blanks, blanks after the name and before the first name, with a 2-byte symbolic window',
          'thorough': 'all combinations to 8 (responses) / 9 (requests) bytes; single options to 10; templates to 8 symbolic bytes'}
OUTSIDE = 'longer header blocks'
EXPLANATION = 'product with the reference parser parameterised by the same (symbolic) options: status, n, error kind, header count and every header\'s four numbers must agree for every option assignment on every path'
ASSUMPTIONS = ['reference model /verif/refmodel implements the documented option semantics (DESIGN 2.4 lists the readings)']


def jobs(tier, seed):
    P = 'C14'; G = ['ref']
    J = []
    J += deepen(P, G, 'resp-all-options', lambda n: sc('resp', n, prefix=RESP_LINE, api='cfg', fl=RESP_HDR_SYM, cap=1),
                range(0, T(tier, 6, 8) + 1), T(tier, 200, 2000), 'response, 16 option combinations, start line + every {n}-byte header block, capacity 1', 5)
    J += deepen(P, G, 'req-all-options', lambda n: sc('req', n, prefix=REQ_LINE, api='cfg', fl=REQ_HDR_SYM, cap=1),
                range(0, T(tier, 7, 9) + 1), T(tier, 150, 1500), 'request, 4 option combinations, start line + every {n}-byte header block, capacity 1', 5)
    J += deepen(P, G, 'resp-all-options-cap0', lambda n: sc('resp', n, prefix=RESP_LINE_NOREASON, api='cfg', fl=RESP_HDR_SYM, cap=0),
                range(0, T(tier, 5, 7) + 1), T(tier, 100, 1000), 'response, 16 option combinations, every {n}-byte header block, capacity 0', 4)
    J += deepen(P, G, 'resp-all-options-cap2', lambda n: sc('resp', n, prefix=RESP_LINE, api='cfg', fl=RESP_HDR_SYM, cap=2),
                range(T(tier, 6, 6), T(tier, 6, 8) + 1), T(tier, 150, 1500), 'response, 16 option combinations, every {n}-byte header block, capacity 2', 0, mandatory=False) if False else []
    singles = [('sp_after_name', 'resp'), ('obs_fold', 'resp'), ('sp_before_first', 'resp'), ('ignore_resp', 'resp'), ('sp_before_first', 'req'), ('ignore_req', 'req')]
    for opt, kind in singles:
        pre = RESP_LINE if kind == 'resp' else REQ_LINE
        J += deepen(P, G, f'{kind}-{opt}', lambda n, opt=opt, kind=kind, pre=pre: sc(kind, n, prefix=pre, api='cfg', fl=flags(**{opt: True}), cap=2),
                    range(T(tier, 7, 5), T(tier, 7, 10) + 1), T(tier, 100, 1200), f'{kind}, {opt} enabled alone, ' + 'start line + every {n}-byte header block, capacity 2', 6)
    # templates that reach deeper structure: folded values, ignored lines followed by kept ones
    tmpl = [('fold', 'resp', RESP_LINE + b'a: b\r\n', b'\r\n\r\n', flags(obs_fold=True, ignore_resp='sym')),
            ('fold-lf', 'resp', RESP_LINE + b'a:\n', b'c\n\n', flags(obs_fold='sym', sp_after_name='sym')),
            ('ignored-then-kept', 'resp', RESP_LINE + b'bad line', b'\r\nk: v\r\n\r\n', flags(ignore_resp=True, obs_fold='sym')),
            ('ignored-then-kept-req', 'req', REQ_LINE + b'k v', b'\nk: v\n\n', flags(ignore_req=True, sp_before_first='sym')),
            ('space-first', 'resp', RESP_LINE + b' ', b'a:b\r\n\r\n', flags(sp_before_first=True, sp_after_name='sym', ignore_resp='sym'))]
    for nm, kind, pre, suf, fl in tmpl:
        J += deepen(P, G, 'tmpl-' + nm, lambda n, kind=kind, pre=pre, suf=suf, fl=fl: sc(kind, n, prefix=pre, suffix=suf, api='cfg', fl=fl, cap=2),
                    range(1, T(tier, 4, 6) + 1), T(tier, 80, 600), f'{kind} {pre!r} + ' + '{n} symbolic bytes + ' + f'{suf!r}', 3)
    J += sliding_families(P, G, tier, step=T(tier, 3, 1))
    J += longrun_families(P, G, tier, ('ignored-run', 'ignored-run-req', 'fold-run', 'fold-ws-run', 'name-sp-run', 'first-sp-run'))
    J += neighbourhood_families(P, G, tier)
    return J
