"""C04 - zero-copy (dynamic half): every non-empty returned slice lies in the caller's buffer, inside buf[..n], in input order."""
from .jobs import *
REQUIRED_WITNESSES = ['C', 'C+hdr', 'P', 'E:HeaderName']
BOUNDS = {'quick': 'same path sets as C03 (headers to 10 bytes, message header blocks to 7/6, start lines to 8/12), plus the POST/GET fast paths with symbolic targets',
          'thorough': 'headers to 13, message header blocks to 10/8, start lines to 11/15'}
OUTSIDE = 'the static half of C04 (lifetimes: no safe client program can keep a field past its buffer) is a statement about rustc\'s borrow checker over all client programs; MIR has lifetimes erased, so the solver has nothing to decide there'
EXPLANATION = 'engine-M pointers carry their allocation; every slice handed back (Complete, Partial and Err alike) is checked for allocation == input buffer, off+len <= n and the ordering chain method < path|reason < name1 < value1 < ...'


def jobs(tier, seed):
    P = 'C04'; G = ['zerocopy']
    J = header_families(P, G, tier)
    J += startline_families(P, G, tier)
    for pre in (b'POST ', b'GET ', b'POST', b'PUT '):
        J += deepen(P, G, 'fastpath-' + pre.decode().strip(), lambda n, pre=pre: sc('req', n, prefix=pre, api='parse', cap=1),
                    range(1, T(tier, 4, 6) + 1), T(tier, 60, 300), f'request {pre!r} + ' + '{n} symbolic bytes', 3)
    if tier == 'thorough': J += sliding_families(P, G, tier)
    return J
