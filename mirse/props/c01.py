"""C01 - total and memory-safe: every path of every entry point returns normally; no read outside the buffer allocation, no
write outside the header array, no overflow / panic / unreachable / uninitialised read / runaway loop.  The buffer allocation is
exactly N cells (nothing behind it), its base address is unknown to every computation, block loads touch all their bytes."""
from .jobs import *
from ..runner import Job
from . import c12

REQUIRED_WITNESSES = ['C', 'P', 'E:Token', 'E:HeaderName']
BOUNDS = {'quick': 'all 9 public entry points (Request: parse/with-config/2 uninit flavours; Response: parse/with-config/uninit-with-config; parse_headers; parse_chunk_size), all 7 options symbolic on the with-config flavours, capacities 0,1,3, uninitialised arrays for the uninit flavours: every buffer of <= 7 bytes (requests), <= 9 (responses), header blocks <= 6-7 bytes behind concrete start lines; on release MIR and debug-assertion MIR of the word-at-a-time build, the runtime-dispatch build (CPU features symbolic) and the no_std build; every scanner of every back end (incl. debug-assertion MIR and NEON) on buffers of every length 0..=40',
          'thorough': 'requests <= 9, responses <= 12, header blocks <= 9; scanners to 100'}
OUTSIDE = 'longer buffers (the property quantifies to 1 MiB); Debug/Display impls; what rustc does below MIR'
EXPLANATION = 'failure conditions of engine M (DESIGN 2.1): satisfiable failure side of any MIR assert (overflow, bounds, debug_assert!), unreachable, panic/unwrap, pointer arithmetic or access leaving its allocation, read of an uninit header cell, call to anything not interpreted and not modelled, step fuel'
ASSUMPTIONS = ['allocation model: one allocation per buffer / header array / local, pointer = (allocation, offset)']


def jobs(tier, seed):
    P = 'C01'; G = ['safety']; J = []
    bud = T(tier, 100, 900)
    kw = dict(validate_every=40)
    for variant in ('swar-rel', 'swar-dbg'):
        rq = T(tier, 7, 9) - (1 if variant == 'swar-dbg' else 0)
        for api, fl, cap in (('cfg', ALL_SYM, 1), ('parse', F0, 0), ('uninit', F0, 1), ('cfg_uninit', ALL_SYM, 3)):
            top = rq - (1 if fl is ALL_SYM else 0)
            J += deepen(P, G, f'req-{api}-{variant}', lambda n, api=api, fl=fl, cap=cap, variant=variant: sc('req', n, api=api, fl=fl, cap=cap, variant=variant),
                        range(max(0, top - T(tier, 1, 3)), top + 1), bud, f'Request via {api} ({variant}), capacity {cap}, ' + ('all 7 options symbolic, ' if fl is ALL_SYM else '') + 'every {n}-byte buffer', top - 1, **kw)
            toph = T(tier, 7, 9) - (1 if fl is ALL_SYM else 0) - (1 if variant == 'swar-dbg' else 0)
            J += deepen(P, G, f'req-hdr-{api}-{variant}', lambda n, api=api, fl=fl, cap=cap, variant=variant: sc('req', n, prefix=REQ_LINE_LF, api=api, fl=fl, cap=cap, variant=variant),
                        range(toph - T(tier, 0, 2), toph + 1), bud, f'Request via {api} ({variant}), capacity {cap}, start line + ' + 'every {n}-byte header block', toph - 1, **kw)
        for api, fl, cap in (('cfg', ALL_SYM, 1), ('parse', F0, 0), ('cfg_uninit', ALL_SYM, 3)):
            top = T(tier, 9, 12) - (1 if variant == 'swar-dbg' else 0)
            J += deepen(P, G, f'resp-{api}-{variant}', lambda n, api=api, fl=fl, cap=cap, variant=variant: sc('resp', n, api=api, fl=fl, cap=cap, variant=variant),
                        range(top - T(tier, 1, 3), top + 1), bud, f'Response via {api} ({variant}), capacity {cap}, ' + ('all 7 options symbolic, ' if fl is ALL_SYM else '') + 'every {n}-byte buffer', top - 1, **kw)
            toph = T(tier, 6, 8) - (1 if fl is ALL_SYM else 0)
            J += deepen(P, G, f'resp-hdr-{api}-{variant}', lambda n, api=api, fl=fl, cap=cap, variant=variant: sc('resp', n, prefix=RESP_LINE, api=api, fl=fl, cap=cap, variant=variant),
                        range(toph - T(tier, 0, 2), toph + 1), bud, f'Response via {api} ({variant}), capacity {cap}, start line + ' + 'every {n}-byte header block', toph - 1, **kw)
        J += deepen(P, G, f'headers-{variant}', lambda n, variant=variant: sc('headers', n, cap=2, variant=variant), range(T(tier, 8, 6), T(tier, 9, 11) + 1), bud,
                    f'parse_headers ({variant}), capacity 2, ' + 'every {n}-byte buffer', 8, **kw)
        J += deepen(P, G, f'chunk-{variant}', lambda n, variant=variant: sc('chunk', n, variant=variant), range(T(tier, 4, 2), T(tier, 4, 6) + 1), bud,
                    f'parse_chunk_size ({variant}), ' + 'every {n}-byte buffer', 4, **kw)
    # long digit runs of chunk sizes (the only multiplication in the crate): 14..17 digits with symbolic digits at either end
    HEX = [b for b in b'0123456789abcdefABCDEF']
    for nd in (15, 16, 17, 18):
        for variant in ('swar-rel', 'swar-dbg'):
            for nm, pre, suf in (('head', b'', b'f' * (nd - 1) + b'\r\n'), ('tail', b'f' * (nd - 1), b'\r\n'), ('zeros', b'0' * (nd - 1), b'\r\n'), ('one', b'1' + b'0' * (nd - 2), b'\r\n')):
                jb = product_job(P, f'chunk-digits{nd}-{nm}-{variant}', G, sc('chunk', 1, prefix=pre, suffix=suf, variant=variant, fixed={0: HEX}), bud,
                                 f'parse_chunk_size ({variant}): {nd} hex digits, one of them symbolic ({nm})', family='chunk-digits', mandatory=True, **kw)
                jb.small = True; J.append(jb)
    for variant in ('x86-rt', 'x86-rt-dbg', 'nostd'):
        J += deepen(P, G, f'req-{variant}', lambda n, variant=variant: sc('req', n, api='cfg', fl=flags(multi_sp_req='sym'), cap=1, variant=variant), range(T(tier, 6, 5), T(tier, 6, 8) + 1), bud,
                    f'Request ({variant}), ' + 'every {n}-byte buffer', 5, **kw)
        J += deepen(P, G, f'resp-hdr-{variant}', lambda n, variant=variant: sc('resp', n, prefix=RESP_LINE, api='cfg', fl=RESP_HDR_SYM, cap=1, variant=variant), range(T(tier, 5, 4), T(tier, 5, 7) + 1), bud,
                    f'Response ({variant}), 4 header options symbolic, start line + ' + 'every {n}-byte header block', 4, **kw)
    # long targets / values through the whole parser on the SIMD dispatch build (block loads near the end of the buffer)
    NOSP = [b for b in range(256) if b not in (0x20,) and b < 0x80]
    for L in (15, 16, 17, 31, 32, 33, 47):
        J.append(product_job(P, f'x86-rt-target-L{L}', G, sc('req', L, prefix=b'GET ', api='parse', cap=1, variant='x86-rt', fixed={i: NOSP for i in range(L)}), bud,
                             f'Request (x86-rt, CPU features symbolic) "GET " + {L} symbolic target bytes and NOTHING after them', family='x86-target', mandatory=True, **kw))
    NOEOLV = [b for b in range(256) if b not in (9, 10, 13, 32)]
    for L in (15, 16, 17, 31, 32, 33, 47):
        J.append(product_job(P, f'x86-rt-value-L{L}', G, sc('resp', L, prefix=b'HTTP/1.1 200 OK\r\nN: v', api='parse', cap=1, variant='x86-rt', fixed={i: NOEOLV for i in range(L)}), bud,
                             f'Response (x86-rt, CPU features symbolic) start line + "N: v" + {L} symbolic value bytes and NOTHING after them', family='x86-value', mandatory=True, **kw))
    for j in J:
        if j.name.startswith(('x86-rt-target', 'x86-rt-value')): j.small = True
    # scanners of every back end, debug-assertion MIR included
    NOTAB = [b for b in range(256) if b != 9]
    scanners = list(c12.discover_scanners()) + [('swar-dbg', 'swar::match_uri_vectored', 'uri', 'swar-dbg'), ('swar-dbg', 'swar::match_header_value_vectored', 'value', 'swar-dbg'),
                                     ('swar-dbg', 'swar::match_header_name_vectored', 'name', 'swar-dbg'),
                                     ('x86-rt-dbg', 'sse42::match_uri_vectored', 'uri', 'sse42-dbg'), ('x86-rt-dbg', 'sse42::match_header_value_vectored', 'value', 'sse42-dbg'),
                                     ('x86-rt-dbg', 'avx2::match_uri_vectored', 'uri', 'avx2-dbg'), ('x86-rt-dbg', 'avx2::match_header_value_vectored', 'value', 'avx2-dbg')]
    top = T(tier, 40, 100)
    for variant, fn, cls, tag in scanners:
        tp = min(top, T(tier, 20, 36)) if (variant == 'a64-neon' and cls == 'name' and 'swar' not in fn) else top
        for L in sorted(set(list(range(0, tp + 1, T(tier, 7, 3))) + [7, 8, 9, 15, 16, 17, 31, 32, 33, tp])):
            if L > tp: continue
            fixed = None
            if cls == 'value' and L > 8:
                t0 = (seed * 5 + L * 3) % L; fixed = {i: NOTAB for i in range(L) if i != t0}
            params = {'variants': [variant], 'fn': fn, 'cls': cls, 'L': L, 'tag': tag.replace('-dbg', ''), 'fixed': fixed, 'prop': 'C01', 'xcheck_every': 12, 'safety_only': True}
            jb = Job(f'scan-{tag}-{cls}-L{L}', 'mirse.props.c12.leaf_scan', params, T(tier, 60, 600), f'{fn} ({variant}), every buffer of {L} bytes: returns normally, no access outside the {L} bytes',
                     family=f'scan-{tag}-{cls}', groups=['ref'], mandatory=(L <= 17))
            jb.small = True; J.append(jb)
    return J
