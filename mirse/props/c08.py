"""C08 - header block under the default configuration: exact lines in, exact name/value pairs out.
Product of the implementation with the reference header grammar on fully symbolic header blocks."""
from .jobs import *

REQUIRED_WITNESSES = ['C', 'C+hdr', 'P', 'E:HeaderName', 'E:HeaderValue', 'E:NewLine', 'E:TooManyHeaders']
BOUNDS = {
    'quick': 'parse_headers: every buffer of length 0..=10 (capacity 3), 0..=9 (capacities 0,1,2); Request/Response behind a concrete start line: every header block of length 0..=8; single-header templates with a symbolic value (any byte but CR/LF) of length 0..=25 and a symbolic name (any byte but a colon) of length 1..=40; long runs (7..33 bytes) of whitespace after the colon and before the line end with a 2-byte symbolic window, a second header behind',
    'thorough': 'parse_headers: every buffer of length 0..=14 (capacity 3), 0..=11 (capacities 0,1,2); requests/responses: header blocks 0..=11; value/name templates to 100',
}
OUTSIDE = 'longer header blocks; non-default configurations (C14); SIMD back ends (C12/C13 tie them to the word-at-a-time scanners)'
EXPLANATION = 'status, n, error kind, header count and each header (name_off,name_len,val_off,val_len) are compared with the reference parser on every path; equality of these numbers is exactly "nothing dropped, merged, split or reordered"'
ASSUMPTIONS = ['reference model /verif/refmodel transcribes the grammar of the property text']


def jobs(tier, seed):
    G = ['ref']; P = 'C08'; J = []
    top = 10 if tier == 'quick' else 14
    for n in range(0, top + 1):
        J.append(product_job(P, f'headers-cap3-S{n}', G, sc('headers', n, cap=3), 200 if tier == 'quick' else 1500,
                             f'parse_headers, all {n}-byte buffers, capacity 3', family='hdr3', mandatory=(n <= 9)))
    top2 = 9 if tier == 'quick' else 11
    for cap in (0, 1, 2):
        for n in range(0, top2 + 1):
            if tier == 'quick' and n < 6 and n % 2: continue
            J.append(product_job(P, f'headers-cap{cap}-S{n}', G, sc('headers', n, cap=cap), 120 if tier == 'quick' else 600,
                                 f'parse_headers, all {n}-byte buffers, capacity {cap}', family=f'hdr{cap}', mandatory=(n <= 8)))
    top3 = 8 if tier == 'quick' else 11
    for kind, pre in (('req', REQ_LINE), ('resp', RESP_LINE), ('req', REQ_LINE_LF), ('resp', RESP_LINE_NOREASON)):
        for api in ('parse', 'cfg'):
            for n in ([top3] if tier == 'quick' else range(6, top3 + 1)):
                if api == 'cfg' and pre in (REQ_LINE_LF, RESP_LINE_NOREASON): continue
                J.append(product_job(P, f'{kind}-{api}-{len(pre)}+S{n}', G, sc(kind, n, prefix=pre, api=api, cap=2), 120 if tier == 'quick' else 900,
                                     f'{kind} via {api}, start line {pre!r} + all {n}-byte header blocks, capacity 2', family=f'{kind}{api}{len(pre)}', mandatory=(n <= 8)))
    # templates: one header whose value (or name) is symbolic and long enough to cross every word phase.  The symbolic
    # bytes take every value except the ones that would end the field (CR/LF for values, ':' for names), so the
    # path count stays linear in the length while all other 254/255 values are covered at every lane.
    NOEOL = [b for b in range(256) if b not in (10, 13)]
    NOTAB = [b for b in range(256) if b not in (9, 10, 13)]
    NOCOLON = [b for b in range(256) if b != 58]
    topv = 40 if tier == 'quick' else 100
    # HTAB is re-examined byte by byte by the word-at-a-time scanner, which doubles the path count per byte: the long
    # templates admit HTAB at one (seed-rotated) position only, the short ones (L <= 8) everywhere.
    for L in range(0, 9, 2 if tier == 'quick' else 1):
        J.append(product_job(P, f'value-tab-L{L}', G, sc('headers', L, prefix=b'N: ', suffix=b'\r\n\r\n', cap=1, fixed={i: NOEOL for i in range(L)}),
                             60 if tier == 'quick' else 300, f'"N: " + {L} symbolic value bytes (any value but CR/LF) + CRLFCRLF', family='value-tab', mandatory=(L <= 6)))
    for L in ((9, 17, 25) if tier == 'quick' else range(9, topv + 1, 3)):
        tabpos = (seed * 7 + L * 3) % L
        J.append(product_job(P, f'value-L{L}', G, sc('headers', L, prefix=b'N: ', suffix=b'\r\n\r\n', cap=1,
                             fixed={i: (NOEOL if i == tabpos else NOTAB) for i in range(L)}),
                             60 if tier == 'quick' else 300, f'"N: " + {L} symbolic value bytes (any value but CR/LF; HTAB only at offset {tabpos}) + CRLFCRLF', family='value', mandatory=(L <= 16)))
    for L in range(1, topv + 1, 4 if tier == 'quick' else 3):
        J.append(product_job(P, f'name-L{L}', G, sc('headers', L, prefix=b'', suffix=b': v\r\n\r\n', cap=1, fixed={i: NOCOLON for i in range(L)}),
                             60 if tier == 'quick' else 300, f'{L} symbolic name bytes (any value but ":") + ": v" CRLFCRLF', family='name', mandatory=(L <= 16)))
    J += sliding_families(P, G, tier, default_flags=True, step=T(tier, 2, 1))
    J += longrun_families(P, G, tier, ('ows-run', 'trail-ws-run'))
    J += neighbourhood_families(P, G, tier, default_flags=True)
    return J
