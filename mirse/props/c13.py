"""C13 - results independent of back end, build profile, alignment and thread timing.
(i) back end: whole-parser products word-at-a-time vs runtime-dispatch (CPU features symbolic) vs compile-time SSE4.2 / AVX2 vs
no_std builds on the same symbolic bytes; (ii) profile: release MIR vs debug-assertion MIR; (iii) alignment: no computation may
depend on the buffer's address (engine-level); (iv) thread timing: the runtime-feature cell holds an arbitrary element of the
invariant set {0, d}; every store writes d, every load path returns d, and a #[target_feature] function is only entered if the
CPU has the feature - so every interleaving of first calls sees the same dispatch; (v) switch lattice: engine L (z3 over cfg atoms)."""
import time
import z3
from .jobs import *
from ..runner import Job
from .. import sym, lattice, build
from ..engine import IntV, BoolV, Ref, Panic, Unsupported, nav
from ..harness import Scenario, instantiate, run_impl, make_cells, install_cpu
from . import common
from .common import Leaf
from .c16 import cmp_obs

REQUIRED_WITNESSES = ['C', 'P']
BOUNDS = {'quick': 'back-end products: requests with 15..33-byte symbolic targets and responses with 15..33-byte symbolic header values (crossing the 16/32-byte vector loops and their tails; also buffers cut inside a 17..70-byte target / value), header blocks <= 6 bytes, request buffers <= 6 bytes; profile products: requests <= 6, responses <= 9, header blocks <= 6, chunk sizes <= 4 bytes; runtime cell: all 3 CPU kinds x cell in {0,d} x scanner buffers 0..=40; lattice: all assignments of 4 cfg atoms x 3 architectures',
          'thorough': 'targets/values to 70 bytes; header blocks <= 8; requests <= 8; responses <= 11; chunk <= 6'}
OUTSIDE = 'that rustc accepts all 32 switch combinations (9 variants are built every run to obtain their MIR; C19 builds 16 no_std combinations); i686 and aarch64 cannot be replayed natively; big-endian targets'
EXPLANATION = 'thread timing is decided as an invariant of the single relaxed atomic cell rather than by racing threads: with I = {0, d}, every store on every path writes d (I is preserved by any step of any thread from any reachable cell value) and get_runtime_feature returns d whatever it loaded'
ASSUMPTIONS = ['is_x86_feature_detected! is a pure function of the CPU, constant for the life of the process', 'Relaxed load/store on one AtomicU8 are single atomic operations']


def leaf_variants(E, params):
    sc0 = Scenario(**params['scenario']); v2 = params['variant2']
    I = instantiate(E, sc0)
    if v2.startswith('x86-rt') and I.cpu is None: I.cpu = install_cpu(E)
    a = run_impl(E, I, variant=sc0.variant)
    b = run_impl(E, I, variant=v2, cells=make_cells(E, sc0))
    L = Leaf(E, I, params['prop'])
    cmp_obs(L, a, b, 0, f'{sc0.variant} vs {v2}: ')
    if I.cpu is not None:
        for m in I.cpu['bad']: L.concrete(False, m)
    viol = L.finish(common.predicted_json(E, I, a))
    for v in viol:
        e = common.entry_name(sc0.kind, sc0.api)
        from .. import native
        p1 = native.profile_for(sc0.variant, 'dbg' not in sc0.variant and False)
        v['rel'] = 'same'
        prof = lambda var: ('dev' if 'dbg' in var else 'release') + native.profile_for(var, False)[3:]
        v['runs'] = [{'entry': e, 'flags': v['flags'] & 127, 'cap': sc0.cap, 'buf': v['buf'], 'profile': prof(sc0.variant)},
                     {'entry': e, 'flags': v['flags'] & 127, 'cap': sc0.cap, 'buf': v['buf'], 'profile': prof(v2)}]
        if v2.startswith('x86-rt'):
            # also try the two forced SIMD builds: the witness' CPU kind is not necessarily this host's
            v['runs'] += [{'entry': e, 'flags': v['flags'] & 127, 'cap': sc0.cap, 'buf': v['buf'], 'profile': 'release-sse42'},
                          {'entry': e, 'flags': v['flags'] & 127, 'cap': sc0.cap, 'buf': v['buf'], 'profile': 'release-avx2'}]
    lab = common.outcome_label(a)
    rec = {'outcome': lab, 'obligations': L.nobl, 'violations': viol, 'witnesses': {lab: 1}}
    s = common.sample_of(E, I, a, f' | {v2}: {common.outcome_label(b)}')
    if s: rec['sample'] = s
    common.add_validation(rec, E, I, a, params)
    return rec


def leaf_cell(E, params):
    """get_runtime_feature from any cell value in the invariant set; dispatch only into functions whose feature the CPU has"""
    E.use('x86-rt')
    L = params['L']; fn = params['fn']
    m0 = sym.MASK256 & ~(1 << 9) if 'value' in fn else sym.MASK256     # HTAB is re-examined bytewise by the word scanner: 2^L paths
    cells = [IntV(8, sym.var_node(E.new_var(m0, 'b%d' % i))) for i in range(L)]
    cpu = install_cpu(E)
    entered = []
    def on_call(path, f, args):
        if f is not None and (f.name.startswith('avx2::') or f.name.startswith('sse42::')): entered.append(f.name.split('::')[0])
    E.hooks['call'] = on_call
    obl = 0; bad = []
    try:
        if fn == 'get_runtime_feature':
            r = E.call_func(E.resolve('get_runtime_feature'), [])
            # d for this CPU
            a = E.branch_bool(cpu['avx2']); d = 1 if a else (2 if E.branch_bool(cpu['sse42']) else 3)
            obl += 3
            if not r.conc() or r.v != d: bad.append(f'get_runtime_feature returned {r} but the CPU detects {d}')
            if d == 0: bad.append('detected feature is 0, indistinguishable from "not yet detected"')
            for v in cpu['stores']:
                obl += 1
                if not v.conc() or v.v != d: bad.append(f'store of {v} != detected {d}')
        else:
            bv = E.call_func(E.by_method[(None, 'Bytes', 'new')], [Ref(cells, (0,), L, 'buf')]); box = [bv]
            E.call_func(E.resolve(fn), [Ref(box, (0,), None, 'local')])
            for nm in entered:
                obl += 1
                flag = cpu['avx2'] if nm == 'avx2' else cpu['sse42']
                has = E.branch_bool(flag)
                if not has: bad.append(f'dispatch entered a #[target_feature(enable = "{nm}")] function on a CPU without {nm}')
        bad += cpu['bad']
    except Panic as e:
        bad.append(f'panic: {e}')
    finally:
        E.hooks.pop('call', None)
    viol = []
    if bad:
        wit = E.witness() or {}
        viol.append({'prop': 'C13', 'msg': bad[0], 'scenario': f'{fn} with symbolic CPU and cell', 'kind': 'cell', 'api': '-', 'variant': 'x86-rt', 'flags': 0, 'cap': 0,
                     'buf': bytes((wit.get(i) or 0x61) for i in range(L)).hex(), 'predicted': None, 'rel': 'cell',
                     'cpu': {k: str(E.dom.get(getattr(cpu[k].v, 'var', None))) for k in ('avx2', 'sse42', 'cached')}})
    lab = 'cell:' + ('bad' if bad else 'ok')
    return {'outcome': lab, 'obligations': obl, 'violations': viol, 'witnesses': {lab: 1, 'C': 1, 'P': 1}}


def jobs(tier, seed):
    P = 'C13'; G = ['same']; J = []
    bud = T(tier, 100, 900)
    kw = dict(fn='mirse.props.c13.leaf_variants')
    NOSP = [b for b in range(256) if b != 0x20 and b < 0x80]
    NOEOL = [b for b in range(256) if b not in (9, 10, 13, 32)]
    others = ['x86-rt', 'x86-sse42-ct', 'x86-avx2-ct', 'nostd']
    for v2 in others:
        Ls = (15, 16, 17, 32, 33) if tier == 'quick' else (15, 16, 17, 31, 32, 33, 47, 48, 64, 70)
        if v2 == 'nostd': Ls = (9,)
        for L in Ls:
            jb = product_job(P, f'target-L{L}-swar-vs-{v2}', G, sc('req', L, prefix=b'GET ', suffix=b' HTTP/1.1\r\n\r\n', api='parse', cap=1, fixed={i: NOSP for i in range(L)}), bud,
                             f'request with a {L}-byte symbolic target (7-bit, no SP): word-at-a-time vs {v2}', family=f'target-{v2}', variants=['swar-rel', v2], extra={'variant2': v2, 'space_mul': 8 if v2.startswith('x86-rt') else 1}, **kw)
            jb.small = True; J.append(jb)
            jb = product_job(P, f'value-L{L}-swar-vs-{v2}', G, sc('resp', L, prefix=b'HTTP/1.1 200 OK\r\nN: ', suffix=b'\r\n\r\n', api='parse', cap=1, fixed={i: NOEOL for i in range(L)}), bud,
                             f'response with a {L}-byte symbolic header value (any byte but HTAB/SP/CR/LF): word-at-a-time vs {v2}', family=f'value-{v2}', variants=['swar-rel', v2], extra={'variant2': v2, 'space_mul': 8 if v2.startswith('x86-rt') else 1}, **kw)
            jb.small = True; J.append(jb)
        # buffers that END inside the scanned field (the tail shorter than a word / a vector after full blocks)
        for L in (T(tier, (17, 20, 33, 36, 39), (17, 20, 33, 36, 39, 65, 70)) if v2 != 'nostd' else ()):
            jb = product_job(P, f'target-cut-L{L}-swar-vs-{v2}', G, sc('req', L, prefix=b'GET /', api='parse', cap=1, fixed={i: NOSP for i in range(L)}), bud,
                             f'request cut inside a {L}-byte symbolic target: word-at-a-time vs {v2}', family=f'target-cut-{v2}', variants=['swar-rel', v2], extra={'variant2': v2, 'space_mul': 8 if v2.startswith('x86-rt') else 1}, **kw)
            jb.small = True; J.append(jb)
            jb = product_job(P, f'value-cut-L{L}-swar-vs-{v2}', G, sc('resp', L, prefix=b'HTTP/1.1 200 OK\r\nN: v', api='parse', cap=1, fixed={i: NOEOL for i in range(L)}), bud,
                             f'response cut inside a {L}-byte symbolic header value: word-at-a-time vs {v2}', family=f'value-cut-{v2}', variants=['swar-rel', v2], extra={'variant2': v2, 'space_mul': 8 if v2.startswith('x86-rt') else 1}, **kw)
            jb.small = True; J.append(jb)
        J += deepen(P, G, f'hdr-swar-vs-{v2}', lambda n, v2=v2: sc('resp', n, prefix=RESP_LINE, api='cfg', fl=RESP_HDR_SYM, cap=1), range(T(tier, 5, 4), T(tier, 5, 7) + 1), bud,
                    'response start line + every {n}-byte header block, 4 header options symbolic: word-at-a-time vs ' + v2, 4, variants=['swar-rel', v2], extra={'variant2': v2, 'space_mul': 8 if v2.startswith('x86-rt') else 1}, **kw)
        J += deepen(P, G, f'req-swar-vs-{v2}', lambda n, v2=v2: sc('req', n, api='cfg', fl=flags(multi_sp_req='sym'), cap=1), range(T(tier, 6, 5), T(tier, 6, 8) + 1), bud,
                    'request, every {n}-byte buffer: word-at-a-time vs ' + v2, 5, variants=['swar-rel', v2], extra={'variant2': v2, 'space_mul': 8 if v2.startswith('x86-rt') else 1}, **kw)
    # profile: release vs debug assertions
    for a, b in (('swar-rel', 'swar-dbg'), ('x86-rt', 'x86-rt-dbg')):
        J += deepen(P, G, f'profile-req-{a}', lambda n, a=a: sc('req', n, api='cfg', fl=flags(multi_sp_req='sym'), cap=1, variant=a), range(T(tier, 6, 5), T(tier, 6, 8) + 1), bud,
                    f'request, every {{n}}-byte buffer: {a} vs {b}', 5, variants=[a, b], extra={'variant2': b}, **kw)
        J += deepen(P, G, f'profile-resp-{a}', lambda n, a=a: sc('resp', n, api='cfg', fl=flags(multi_sp_resp='sym'), cap=1, variant=a), range(T(tier, 9, 8), T(tier, 9, 11) + 1), bud,
                    f'response, every {{n}}-byte buffer: {a} vs {b}', 8, variants=[a, b], extra={'variant2': b}, **kw)
        J += deepen(P, G, f'profile-hdr-{a}', lambda n, a=a: sc('resp', n, prefix=RESP_LINE, api='cfg', fl=RESP_HDR_SYM, cap=1, variant=a), range(T(tier, 5, 4), T(tier, 5, 7) + 1), bud,
                    f'response start line + every {{n}}-byte header block: {a} vs {b}', 4, variants=[a, b], extra={'variant2': b}, **kw)
    J += deepen(P, G, 'profile-chunk', lambda n: sc('chunk', n, variant='swar-rel'), range(T(tier, 3, 0), T(tier, 4, 6) + 1), bud,
                'parse_chunk_size: release MIR vs debug MIR on every {n}-byte buffer', 4, fn='mirse.props.c09.leaf_profiles', variants=['swar-rel', 'swar-dbg'])
    for nd in (15, 16, 17):
        HEX = [b for b in b'0123456789abcdefABCDEF']
        for pre in (b'f', b'0'):
            jb = product_job(P, f'profile-chunk-digits{nd}-{pre.decode()}', G, sc('chunk', 2, prefix=pre * (nd - 2), suffix=b'\r\n', variant='swar-rel', fixed={0: HEX, 1: HEX}), bud,
                             f'{nd - 2} x "{pre.decode()}" + 2 symbolic hex digits + CRLF: release MIR vs debug MIR', fn='mirse.props.c09.leaf_profiles', variants=['swar-rel', 'swar-dbg'])
            jb.small = True; J.append(jb)
    # runtime-feature cell
    for fn, Ls in (('get_runtime_feature', (0,)), ('runtime::match_uri_vectored', (0, 8, 16, 33, 40)), ('runtime::match_header_value_vectored', (0, 8, 16, 33, 40))):
        for L in Ls:
            params = {'variants': ['x86-rt'], 'fn': fn, 'L': L, 'prop': P, 'xcheck_every': 0}
            jb = Job(f'cell-{fn.split("::")[-1]}-L{L}', 'mirse.props.c13.leaf_cell', params, bud, f'{fn}: CPU features and cache cell symbolic' + (f', {L}-byte symbolic buffer' if L else ''), groups=['same'])
            jb.small = True; J.append(jb)
    return J


def main(pid, tier, seed):
    from .. import runner

    def post(total):
        res = lattice.analyse(build.REPO)
        viol = []
        for r in res['results']:
            if not r['holds']:
                viol.append({'prop': 'C13', 'msg': f"switch lattice: {r['obligation']} fails for {r['counterexample']}", 'scenario': 'cfg lattice of src/simd/mod.rs', 'kind': 'lattice', 'api': '-',
                             'variant': '-', 'flags': 0, 'cap': 0, 'buf': '', 'predicted': None, 'rel': 'lattice', 'groups': []})
        return viol, [], {'cfg_lattice': res}
    return runner.run_property(pid, tier, seed, post=post)
