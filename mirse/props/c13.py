"""C13 - results independent of back end, build profile, alignment and thread timing.
(i) back end: whole-parser products word-at-a-time vs runtime-dispatch (CPU features symbolic) vs compile-time SSE4.2 / AVX2 vs
no_std builds on the same symbolic bytes; (ii) profile: release MIR vs debug-assertion MIR; (iii) alignment: no computation may
depend on the buffer's address (engine-level); (iv) thread timing: the runtime-feature cell holds an arbitrary element of the
invariant set {0, d}; every store writes d, every load path returns d, and a #[target_feature] function is only entered if the
CPU has the feature - so every interleaving of first calls sees the same dispatch; (v) switch lattice: engine L (z3 over cfg atoms)."""
import time
import z3
from .jobs import *
from ..runner import Job
from .. import sym, lattice, build
from ..engine import IntV, BoolV, Ref, Panic, Unsupported, nav
from ..harness import Scenario, instantiate, run_impl, make_cells, install_cpu
from . import common
from .common import Leaf
from .c16 import cmp_obs

REQUIRED_WITNESSES = ['C', 'P', 'stop:inside']
BOUNDS = {'quick': 'back-end products: requests with 15..33-byte symbolic targets and responses with 15..33-byte symbolic header values (crossing the 16/32-byte vector loops and their tails; also buffers cut inside a 17..70-byte target / value), header blocks <= 6 bytes, request buffers <= 6 bytes; i686 build (32-bit usize, 4-byte words) vs reference: header blocks <= 8, requests <= 6, values/targets crossing the 4-byte words; profile products: requests <= 6, responses <= 9, header blocks <= 6, chunk sizes <= 4 bytes; runtime cell: all 4 CPU kinds x every reachable cell value before every atomic operation x scanner buffers of 0..40 bytes; lattice: all assignments of 4 cfg atoms x 3 architectures',
          'thorough': 'targets/values to 70 bytes; header blocks <= 8; requests <= 8; responses <= 11; chunk <= 6'}
OUTSIDE = 'the i686 build is checked against the reference model, not pairwise with x86-64 (one engine instance has one pointer width); that rustc accepts all 32 switch combinations (9 variants are built every run to obtain their MIR; C19 builds 16 no_std combinations); i686 and aarch64 cannot be replayed natively; big-endian targets'
EXPLANATION = 'thread timing is decided over all interleavings rather than by racing threads: the cache cell is the only shared state; before every atomic operation the environment may have set it to any value of the reachable set R (fixpoint of the values any path of the dispatch code can store, starting from the initial 0); for every such schedule and every CPU kind the dispatcher must return normally, stop exactly, and enter only target_feature functions the CPU supports'
ASSUMPTIONS = ['is_x86_feature_detected! is a pure function of the CPU, constant for the life of the process', 'Relaxed load/store on one AtomicU8 are single atomic operations']


def leaf_variants(E, params):
    sc0 = Scenario(**params['scenario']); v2 = params['variant2']
    I = instantiate(E, sc0)
    if v2.startswith('x86-rt') and I.cpu is None: I.cpu = install_cpu(E)
    a = run_impl(E, I, variant=sc0.variant)
    b = run_impl(E, I, variant=v2, cells=make_cells(E, sc0))
    L = Leaf(E, I, params['prop'])
    cmp_obs(L, a, b, 0, f'{sc0.variant} vs {v2}: ')
    if I.cpu is not None:
        for m in I.cpu['bad']: L.concrete(False, m)
    viol = L.finish(common.predicted_json(E, I, a))
    for v in viol:
        if I.cpu is not None and I.cpu['nsched'] > 0:
            v['rel'] = 'race'; v['schedule'] = {E.varnames.get(x, x): bin(m) for x, m in E.dom.items() if str(E.varnames.get(x, '')).startswith('sched')}
            continue
        e = common.entry_name(sc0.kind, sc0.api)
        from .. import native
        p1 = native.profile_for(sc0.variant, 'dbg' not in sc0.variant and False)
        v['rel'] = 'same'
        prof = lambda var: ('dev' if 'dbg' in var else 'release') + native.profile_for(var, False)[3:]
        v['runs'] = [{'entry': e, 'flags': v['flags'] & 127, 'cap': sc0.cap, 'buf': v['buf'], 'profile': prof(sc0.variant)},
                     {'entry': e, 'flags': v['flags'] & 127, 'cap': sc0.cap, 'buf': v['buf'], 'profile': prof(v2)}]
        if v2.startswith('x86-rt'):
            # also try the two forced SIMD builds: the witness' CPU kind is not necessarily this host's
            v['runs'] += [{'entry': e, 'flags': v['flags'] & 127, 'cap': sc0.cap, 'buf': v['buf'], 'profile': 'release-sse42'},
                          {'entry': e, 'flags': v['flags'] & 127, 'cap': sc0.cap, 'buf': v['buf'], 'profile': 'release-avx2'}]
    lab = common.outcome_label(a)
    rec = {'outcome': lab, 'obligations': L.nobl, 'violations': viol, 'witnesses': {lab: 1}}
    s = common.sample_of(E, I, a, f' | {v2}: {common.outcome_label(b)}')
    if s: rec['sample'] = s
    common.add_validation(rec, E, I, a, params)
    return rec


def jobs(tier, seed):
    P = 'C13'; G = ['same']; J = []
    bud = T(tier, 100, 900)
    kw = dict(fn='mirse.props.c13.leaf_variants')
    NOSP = [b for b in range(256) if b != 0x20 and b < 0x80]
    NOEOL = [b for b in range(256) if b not in (9, 10, 13, 32)]
    others = ['x86-rt', 'x86-sse42-ct', 'x86-avx2-ct', 'nostd']
    for v2 in others:
        Ls = (15, 16, 17, 32, 33) if tier == 'quick' else (15, 16, 17, 31, 32, 33, 47, 48, 64, 70)
        if tier == 'quick' and v2 == 'x86-avx2-ct': Ls = Ls + (64, 65, 70)        # two vector widths, without the dispatcher's CPU/schedule fan-out
        if v2 == 'nostd': Ls = (9,)
        for L in Ls:
            jb = product_job(P, f'target-L{L}-swar-vs-{v2}', G, sc('req', L, prefix=b'GET ', suffix=b' HTTP/1.1\r\n\r\n', api='parse', cap=1, fixed={i: NOSP for i in range(L)}), bud,
                             f'request with a {L}-byte symbolic target (7-bit, no SP): word-at-a-time vs {v2}', family=f'target-{v2}', variants=['swar-rel', v2], extra={'variant2': v2, 'space_mul': 8 if v2.startswith('x86-rt') else 1}, **kw)
            jb.small = True; J.append(jb)
            jb = product_job(P, f'value-L{L}-swar-vs-{v2}', G, sc('resp', L, prefix=b'HTTP/1.1 200 OK\r\nN: ', suffix=b'\r\n\r\n', api='parse', cap=1, fixed={i: NOEOL for i in range(L)}), bud,
                             f'response with a {L}-byte symbolic header value (any byte but HTAB/SP/CR/LF): word-at-a-time vs {v2}', family=f'value-{v2}', variants=['swar-rel', v2], extra={'variant2': v2, 'space_mul': 8 if v2.startswith('x86-rt') else 1}, **kw)
            jb.small = True; J.append(jb)
        # buffers that END inside the scanned field (the tail shorter than a word / a vector after full blocks)
        for L in (T(tier, (17, 20, 33, 36, 39), (17, 20, 33, 36, 39, 65, 70)) if v2 != 'nostd' else ()):
            jb = product_job(P, f'target-cut-L{L}-swar-vs-{v2}', G, sc('req', L, prefix=b'GET /', api='parse', cap=1, fixed={i: NOSP for i in range(L)}), bud,
                             f'request cut inside a {L}-byte symbolic target: word-at-a-time vs {v2}', family=f'target-cut-{v2}', variants=['swar-rel', v2], extra={'variant2': v2, 'space_mul': 8 if v2.startswith('x86-rt') else 1}, **kw)
            jb.small = True; J.append(jb)
            jb = product_job(P, f'value-cut-L{L}-swar-vs-{v2}', G, sc('resp', L, prefix=b'HTTP/1.1 200 OK\r\nN: v', api='parse', cap=1, fixed={i: NOEOL for i in range(L)}), bud,
                             f'response cut inside a {L}-byte symbolic header value: word-at-a-time vs {v2}', family=f'value-cut-{v2}', variants=['swar-rel', v2], extra={'variant2': v2, 'space_mul': 8 if v2.startswith('x86-rt') else 1}, **kw)
            jb.small = True; J.append(jb)
        J += deepen(P, G, f'hdr-swar-vs-{v2}', lambda n, v2=v2: sc('resp', n, prefix=RESP_LINE, api='cfg', fl=RESP_HDR_SYM, cap=1), range(T(tier, 5, 4), T(tier, 5, 7) + 1), bud,
                    'response start line + every {n}-byte header block, 4 header options symbolic: word-at-a-time vs ' + v2, 4, variants=['swar-rel', v2], extra={'variant2': v2, 'space_mul': 8 if v2.startswith('x86-rt') else 1}, **kw)
        J += deepen(P, G, f'req-swar-vs-{v2}', lambda n, v2=v2: sc('req', n, api='cfg', fl=flags(multi_sp_req='sym'), cap=1), range(T(tier, 6, 5), T(tier, 6, 8) + 1), bud,
                    'request, every {n}-byte buffer: word-at-a-time vs ' + v2, 5, variants=['swar-rel', v2], extra={'variant2': v2, 'space_mul': 8 if v2.startswith('x86-rt') else 1}, **kw)
    # 32-bit build (BLOCK_SIZE 4, 32-bit usize): whole parser against the reference
    J += deepen(P, ['ref', 'safety'], 'i686-headers', lambda n: sc('headers', n, cap=2, variant='i686-swar'), range(T(tier, 7, 5), T(tier, 8, 10) + 1), bud,
                'parse_headers on the i686 build vs reference, every {n}-byte buffer', 6)
    J += deepen(P, ['ref', 'safety'], 'i686-req', lambda n: sc('req', n, api='cfg', fl=flags(multi_sp_req='sym'), cap=1, variant='i686-swar'), range(T(tier, 6, 5), T(tier, 6, 8) + 1), bud,
                'request on the i686 build vs reference, every {n}-byte buffer', 5)
    J += deepen(P, ['ref', 'safety'], 'i686-resp-hdr', lambda n: sc('resp', n, prefix=RESP_LINE, api='cfg', fl=RESP_HDR_SYM, cap=1, variant='i686-swar'), range(T(tier, 5, 4), T(tier, 5, 7) + 1), bud,
                'response on the i686 build vs reference, start line + every {n}-byte header block, 4 header options symbolic', 4)
    for L in (3, 4, 5, 7, 8, 9, 12, 13):
        jb = product_job(P, f'i686-value-L{L}', ['ref', 'safety'], sc('headers', L, prefix=b'N: ', suffix=b'\r\n\r\n', cap=1, variant='i686-swar', fixed={i: NOEOL for i in range(L)}), bud,
                         f'i686 build: "N: " + {L} symbolic value bytes + CRLFCRLF vs reference', family='i686-value')
        jb.small = True; J.append(jb)
        jb = product_job(P, f'i686-target-L{L}', ['ref', 'safety'], sc('req', L, prefix=b'GET ', suffix=b' HTTP/1.1\r\n\r\n', api='parse', cap=1, variant='i686-swar', fixed={i: NOSP for i in range(L)}), bud,
                         f'i686 build: request with a {L}-byte symbolic target vs reference', family='i686-target')
        jb.small = True; J.append(jb)
    # profile: release vs debug assertions
    for a, b in (('swar-rel', 'swar-dbg'), ('x86-rt', 'x86-rt-dbg')):
        J += deepen(P, G, f'profile-req-{a}', lambda n, a=a: sc('req', n, api='cfg', fl=flags(multi_sp_req='sym'), cap=1, variant=a), range(T(tier, 6, 5), T(tier, 6, 8) + 1), bud,
                    f'request, every {{n}}-byte buffer: {a} vs {b}', 5, variants=[a, b], extra={'variant2': b}, **kw)
        J += deepen(P, G, f'profile-resp-{a}', lambda n, a=a: sc('resp', n, api='cfg', fl=flags(multi_sp_resp='sym'), cap=1, variant=a), range(T(tier, 9, 8), T(tier, 9, 11) + 1), bud,
                    f'response, every {{n}}-byte buffer: {a} vs {b}', 8, variants=[a, b], extra={'variant2': b}, **kw)
        J += deepen(P, G, f'profile-hdr-{a}', lambda n, a=a: sc('resp', n, prefix=RESP_LINE, api='cfg', fl=RESP_HDR_SYM, cap=1, variant=a), range(T(tier, 5, 4), T(tier, 5, 7) + 1), bud,
                    f'response start line + every {{n}}-byte header block: {a} vs {b}', 4, variants=[a, b], extra={'variant2': b}, **kw)
    J += deepen(P, G, 'profile-chunk', lambda n: sc('chunk', n, variant='swar-rel'), range(T(tier, 3, 0), T(tier, 4, 6) + 1), bud,
                'parse_chunk_size: release MIR vs debug MIR on every {n}-byte buffer', 4, fn='mirse.props.c09.leaf_profiles', variants=['swar-rel', 'swar-dbg'])
    for nd in (15, 16, 17):
        HEX = [b for b in b'0123456789abcdefABCDEF']
        for pre in (b'f', b'0'):
            jb = product_job(P, f'profile-chunk-digits{nd}-{pre.decode()}', G, sc('chunk', 2, prefix=pre * (nd - 2), suffix=b'\r\n', variant='swar-rel', fixed={0: HEX, 1: HEX}), bud,
                             f'{nd - 2} x "{pre.decode()}" + 2 symbolic hex digits + CRLF: release MIR vs debug MIR', fn='mirse.props.c09.leaf_profiles', variants=['swar-rel', 'swar-dbg'])
            jb.small = True; J.append(jb)
    # runtime-feature cell: the dispatcher under EVERY interleaving of first calls (cell = any reachable value before each atomic
    # operation, reachable set computed as a fixpoint over the dispatch code), on all four CPU kinds
    NOTAB = [b for b in range(256) if b != 9]
    from . import c12 as _c12
    for fn, cls in _c12.dispatchers('x86-rt'):
        for L in (0, 1, 8, 16, 17, 33, 40):
            params = {'variants': ['x86-rt'], 'fn': fn, 'cls': cls, 'L': L, 'tag': 'runtime', 'fixed': ({i: NOTAB for i in range(L)} if cls == 'value' else None), 'prop': P, 'xcheck_every': 12}
            jb = Job(f'cell-{fn.split("::")[-1]}-L{L}', 'mirse.props.c12.leaf_scan', params, bud, f'{fn}: CPU features symbolic, cache cell = any reachable value at every atomic operation, {L}-byte symbolic buffer: '
                     'returns normally, exact stop, only enters target_feature functions the CPU has', family='cell-' + cls, groups=['ref'])
            jb.small = True; J.append(jb)
    return J


def main(pid, tier, seed):
    from .. import runner

    def post(total):
        res = lattice.analyse(build.REPO)
        viol = []
        for r in res['results']:
            if not r['holds']:
                viol.append({'prop': 'C13', 'msg': f"switch lattice: {r['obligation']} fails for {r['counterexample']}", 'scenario': 'cfg lattice of src/simd/mod.rs', 'kind': 'lattice', 'api': '-',
                             'variant': '-', 'flags': 0, 'cap': 0, 'buf': '', 'predicted': None, 'rel': 'lattice', 'groups': []})
        return viol, [], {'cfg_lattice': res}
    return runner.run_property(pid, tier, seed, post=post)
