"""C02 - streaming consistency: Complete and Err are stable under appending bytes; fields reported with Partial keep their value.
Self-composition: the implementation is run on B[..k] and then on B (same symbolic bytes, config, capacity) on every path."""
import z3
from .jobs import *
from .. import sym
from ..engine import IntV
from ..harness import Scenario, instantiate, run_impl
from . import common
from .common import Leaf

REQUIRED_WITNESSES = ['C', 'P', 'E:HeaderName', 'E:Token']
BOUNDS = {'quick': 'every split point k of: parse_headers buffers to 8 bytes; requests/responses = concrete start line + header blocks to 6 bytes (header options symbolic to 5); fully symbolic request buffers to 7 and response buffers to 10 bytes; chunk sizes to 6 bytes; complete heads with a 2-3 byte symbolic window inside a value / target / name followed by 40 body bytes, split at every 7th offset from the window to the end, on the word-at-a-time and the runtime-dispatch build',
          'thorough': 'parse_headers to 10; message header blocks to 8 (options symbolic to 7); start lines to 9 / 13; chunk sizes to 8'}
OUTSIDE = 'longer buffers; delivery histories are covered through the prefix relation (every chunking of a stream is a chain of prefixes)'
EXPLANATION = 'for each split k: first = parse(B[..k]), second = parse(B); first Complete(n) => second identical (n, fields, headers); first Err(e) => second Err(e); first Partial with a start-line field set => second reports the same field'


def same_field(L, nm, a, b):
    if a is None and b is None: return
    if (a is None) != (b is None): L.concrete(False, f'{nm}: {a} on the prefix vs {b} on the extended buffer'); return
    if isinstance(a, tuple): L.concrete(a[:3] == b[:3], f'{nm}: {a[:3]} on the prefix vs {b[:3]} on the extended buffer'); return
    if a.conc() and b.conc(): L.concrete(a.v == b.v, f'{nm}: {a.v} vs {b.v}'); return
    za = z3.BitVecVal(a.v, a.w) if a.conc() else sym.zexpr(a.v)
    zb = z3.BitVecVal(b.v, b.w) if b.conc() else sym.zexpr(b.v)
    L.zquery(f'{nm} differs between prefix and extended buffer', za != zb)


def leaf(E, params):
    sc0 = Scenario(**params['scenario']); k = params['split']
    I = instantiate(E, sc0)
    first = run_impl(E, I, buflen=k)
    L = Leaf(E, I, params['prop'])
    fields = [f for f, v in first.fields.items() if f != 'headers_same_as_before' and v is not None]
    second = None
    if first.status == 'PANIC':
        L.concrete(False, f'panic on the prefix: {first.panic}')
    elif first.status != 'P' or fields:
        second = run_impl(E, I)
        if second.status == 'PANIC': L.concrete(False, f'panic on the extended buffer: {second.panic}')
        elif first.status == 'C':
            L.concrete(second.status == 'C' and second.n == first.n, f'prefix[..{k}] is Complete({first.n}) but the extended buffer gives {second.status} n={second.n}')
            if second.status == 'C':
                for nm in fields: same_field(L, nm, first.fields[nm], second.fields.get(nm))
                L.concrete(first.headers == second.headers, f'headers differ: {first.headers} vs {second.headers}')
                if first.size is not None: same_field(L, 'size', first.size, second.size)
        elif first.status.startswith('E:'):
            L.concrete(second.status == first.status, f'prefix[..{k}] is {first.status} but the extended buffer gives {second.status}')
        else:
            for nm in fields: same_field(L, nm, first.fields[nm], second.fields.get(nm))
    viol = L.finish(common.predicted_json(E, I, second if second is not None else first))
    for v in viol: v['split'] = k; v['rel'] = 'stream'; v['msg'] = f'[split k={k}] ' + v['msg']
    lab = common.outcome_label(first)
    rec = {'outcome': f'{lab}->{common.outcome_label(second) if second else "-"}', 'obligations': L.nobl, 'violations': viol,
           'witnesses': {lab: 1}}
    s = common.sample_of(E, I, first, f' (prefix k={k}) -> {common.outcome_label(second) if second else "not needed"}')
    if s: rec['sample'] = s
    if second is not None: common.add_validation(rec, E, I, second, params)
    return rec


def jobs(tier, seed):
    P = 'C02'; G = ['stream']; J = []

    def fam(name, mk, ns, budget, bound, mand):
        out = []
        for n in ns:
            s = mk(n); total = len(s['prefix']) + s['nsym'] + len(s['suffix'])
            lo = max(0, len(s['prefix']) - 2)
            for k in range(lo, total):
                out.append(product_job(P, f'{name}-S{n}-k{k}', G, s, budget, bound.format(n=n) + f', split at {k}', family=name, mandatory=(n <= mand),
                                       fn='mirse.props.c02.leaf', extra={'split': k}, validate_every=60))
        return out
    bud = T(tier, 100, 900)
    J += fam('headers', lambda n: sc('headers', n, cap=2), range(T(tier, 4, 2), T(tier, 8, 10) + 1, T(tier, 2, 1)), bud, 'parse_headers, every {n}-byte buffer', 6)
    J += fam('req-hdr', lambda n: sc('req', n, prefix=REQ_LINE, api='parse', cap=1), range(T(tier, 6, 4), T(tier, 6, 8) + 1), bud, 'request start line + every {n}-byte header block', 5)
    J += fam('resp-hdr', lambda n: sc('resp', n, prefix=RESP_LINE, api='parse', cap=1), range(T(tier, 6, 4), T(tier, 6, 8) + 1), bud, 'response start line + every {n}-byte header block', 5)
    J += fam('resp-hdr-opts', lambda n: sc('resp', n, prefix=RESP_LINE, api='cfg', fl=RESP_HDR_SYM, cap=1), range(T(tier, 5, 4), T(tier, 5, 7) + 1), bud, 'response start line + every {n}-byte header block, 4 header options symbolic', 4)
    J += fam('req-hdr-opts', lambda n: sc('req', n, prefix=REQ_LINE, api='cfg', fl=REQ_HDR_SYM, cap=1), range(T(tier, 5, 4), T(tier, 5, 7) + 1), bud, 'request start line + every {n}-byte header block, 2 header options symbolic', 4)
    J += fam('reqline', lambda n: sc('req', n, api='cfg', fl=flags(multi_sp_req='sym'), cap=1), range(T(tier, 7, 5), T(tier, 7, 9) + 1), bud, 'request, every {n}-byte buffer', 6)
    J += fam('reqline-tail', lambda n: sc('req', n, prefix=b'GET /ab ', api='parse', cap=1), range(T(tier, 9, 6), T(tier, 10, 12) + 1), bud, 'request "GET /ab " + every {n}-byte remainder', 8)
    J += fam('statusline', lambda n: sc('resp', n, api='cfg', fl=flags(multi_sp_resp='sym'), cap=1), range(T(tier, 10, 8), T(tier, 10, 13) + 1), bud, 'response, every {n}-byte buffer', 9)
    J += fam('statusline-tail', lambda n: sc('resp', n, prefix=b'HTTP/1.1 ', api='parse', cap=1), range(T(tier, 7, 5), T(tier, 7, 10) + 1), bud, 'response "HTTP/1.1 " + every {n}-byte remainder', 6)
    J += fam('chunk', lambda n: sc('chunk', n), range(T(tier, 6, 2), T(tier, 6, 8) + 1), bud, 'parse_chunk_size, every {n}-byte buffer', 5)
    # a complete head followed by body bytes: the head parsed at the END of a buffer versus in the MIDDLE of a longer one
    # (word-at-a-time / vector scanners take different paths near the end of the buffer); every split from the window to the end
    BODY = b'0123456789abcdefghijklmnopqrstuvwxyzABCD'

    def fam2(name, mk, ns, budget, bound, variants=('swar-rel',)):
        out = []
        for variant in variants:
            for n in ns:
                s = mk(n); s['variant'] = variant
                total = len(s['prefix']) + s['nsym'] + len(s['suffix']); lo = len(s['prefix']) + s['nsym']
                for k in range(lo, total, 1 if tier == 'thorough' else 7):
                    jb = product_job(P, f'{name}-{variant}-S{n}-k{k}', G, s, budget, bound.format(n=n) + f' ({variant}), split at {k}', family=f'{name}-{variant}', mandatory=False,
                                     fn='mirse.props.c02.leaf', extra={'split': k}, validate_every=60, variants=[variant])
                    jb.small = True; out.append(jb)
        return out
    vs = ('swar-rel', 'x86-rt')
    J += fam2('value-then-body', lambda n: sc('headers', n, prefix=b'T: a', suffix=b'\r\n\r\n' + BODY, cap=1), range(2, T(tier, 2, 4) + 1), bud,
              'parse_headers "T: a" + {n} symbolic bytes + CRLFCRLF + 40 body bytes', vs)
    J += fam2('target-then-body', lambda n: sc('req', n, prefix=b'GET /', suffix=b' HTTP/1.1\r\n\r\n' + BODY, api='parse', cap=1), range(2, T(tier, 2, 4) + 1), bud,
              'request "GET /" + {n} symbolic bytes + " HTTP/1.1" CRLFCRLF + 40 body bytes', vs)
    J += fam2('name-then-body', lambda n: sc('resp', n, prefix=RESP_LINE + b'N', suffix=b': v\r\n\r\n' + BODY, api='parse', cap=1), range(2, T(tier, 2, 3) + 1), bud,
              'response start line + "N" + {n} symbolic bytes + ": v" CRLFCRLF + 40 body bytes', vs)
    return J
