"""Generic product leaf: implementation then reference on the same symbolic input, with selectable assertion groups."""
from .. import harness
from ..harness import Scenario, instantiate, run_impl, run_ref
from . import common
from .common import Leaf


def leaf(E, params):
    sc = Scenario(**params['scenario'])
    groups = params['groups']; prop = params['prop']
    I = instantiate(E, sc)
    o = run_impl(E, I)
    r = None
    if 'ref' in groups or 'ref_err' in groups or 'storage' in groups or ('framing' in groups and sc.flags[4] not in (False, 0)):
        if not (o.status == 'PANIC' and 'ref' not in groups and 'ref_err' not in groups):
            r = run_ref(E, I)
    L = Leaf(E, I, prop)
    if 'safety' in groups: common.assert_safety(L, E, I, o)
    if 'alloc' in groups:
        L.concrete(not (o.status == 'PANIC' and o.panic.kind == 'alloc'), f'{o.panic}')
        if o.status == 'PANIC' and o.panic.kind != 'alloc': L.concrete(False, f'implementation does not return normally: {o.panic}')
    if 'ref' in groups: common.assert_ref(L, E, I, o, r)
    if 'ref_err' in groups: common.assert_ref(L, E, I, o, r, only_err=True)
    if 'framing' in groups: common.assert_framing(L, E, I, o, r)
    if 'zerocopy' in groups: common.assert_zerocopy(L, E, I, o)
    if 'hygiene' in groups: common.assert_hygiene(L, E, I, o)
    if 'storage' in groups: common.assert_storage(L, E, I, o, r)
    viol = L.finish(common.predicted_json(E, I, o))
    rec = {'outcome': common.outcome_label(o), 'obligations': L.nobl, 'violations': viol}
    if params.get('want_sample', True):
        s = common.sample_of(E, I, o)
        if s: rec['sample'] = s
    rec['witnesses'] = {}
    key = common.outcome_label(o)
    if sc.kind != 'chunk' and o.status == 'C' and o.headers: key += '+hdr'
    rec['witnesses'][key] = 1
    common.add_validation(rec, E, I, o, params)
    return rec
