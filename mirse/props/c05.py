"""C05 - field hygiene: valid UTF-8 strs, class-clean fields, no NUL / bare CR inside the consumed head."""
from .jobs import *
REQUIRED_WITNESSES = ['C', 'C+hdr', 'P']
BOUNDS = {'quick': 'headers to 9 bytes; message header blocks to 6 (default) / 5-6 (header options symbolic); start lines to 7 (request) / 11 (response); reasons and targets with every byte value at every position of 1..=4 symbolic bytes between concrete context',
          'thorough': 'headers to 12; message header blocks to 9 / 7-8; start lines to 10 / 14; reason/target templates to 6 symbolic bytes'}
OUTSIDE = 'longer inputs'
EXPLANATION = 'classes are written out from the property text (not read from httparse tables); per leaf one z3 query: path condition AND (some field byte outside its class OR some &str not well-formed UTF-8 OR NUL / bare CR in buf[..n]) must be unsat'


def jobs(tier, seed):
    P = 'C05'; G = ['hygiene']
    J = header_families(P, G, tier, scale=-1)
    J += startline_families(P, G, tier, scale=-1)
    # reason / target contents with all 256 values per position, both line endings
    for suf in (b'\n\n', b'\r\n\r\n'):
        J += deepen(P, G, f'reason-{len(suf)}', lambda n, suf=suf: sc('resp', n, prefix=b'HTTP/1.1 200 ', suffix=suf, api='parse', cap=1),
                    range(1, T(tier, 4, 6) + 1), T(tier, 60, 400), 'response "HTTP/1.1 200 " + {n} symbolic bytes + ' + repr(suf), 3)
        J += deepen(P, G, f'target-{len(suf)}', lambda n, suf=suf: sc('req', n, prefix=b'GET /', suffix=b' HTTP/1.1' + suf, api='parse', cap=1),
                    range(1, T(tier, 4, 6) + 1), T(tier, 60, 400), 'request "GET /" + {n} symbolic bytes + " HTTP/1.1" + ' + repr(suf), 3)
    J += sliding_families(P, G, tier, step=T(tier, 2, 1), pool=T(tier, ('resp-fold',), None))
    return J
