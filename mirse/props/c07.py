"""C07 - status line: accepted language and reported version/code/reason (product with the reference grammar)."""
from .jobs import *
REQUIRED_WITNESSES = ['C', 'P', 'E:Status', 'E:Version', 'E:NewLine']
BOUNDS = {'quick': 'every response buffer of 0..=12 bytes; split templates with 1..=7 symbolic bytes after the version / code; all 1000 codes (digits symbolic, one arithmetic query per path); reasons to 20 bytes; multi-space option symbolic throughout; long runs (7..33 bytes) of leading empty lines and delimiter spaces with a 2-byte symbolic window, a complete message behind',
          'thorough': 'every response buffer of 0..=15 bytes; split templates to 10 symbolic bytes; reasons to 40 bytes'}
OUTSIDE = 'longer status lines'
ASSUMPTIONS = ['reference model /verif/refmodel transcribes the status-line grammar of the property text']


def jobs(tier, seed):
    P = 'C07'; G = ['ref']
    J = startline_families(P, G, tier, which=('resp',))
    # long reasons: every byte takes any 7-bit value but CR/LF, one (seed-rotated) position takes all 254 values
    # (the obs-text flag otherwise doubles the path count per byte)
    A7 = [b for b in range(128) if b not in (9, 10, 13, 32)]; A8 = [b for b in range(256) if b not in (10, 13)]
    for L in ((0, 1, 4, 8, 12, 20) if tier == 'quick' else range(0, 41, 2)):
        hot = (seed * 3 + L) % L if L else 0
        J.append(product_job(P, f'reason-L{L}', G, sc('resp', L, prefix=b'HTTP/1.0 301 ', suffix=b'\r\n\n', api='parse', cap=1,
                             fixed={i: (A8 if i == hot else A7) for i in range(L)}), T(tier, 60, 300),
                             f'"HTTP/1.0 301 " + {L} symbolic reason bytes (7-bit but HTAB/SP/CR/LF; offset {hot}: any value but CR/LF) + CRLF LF', family='reason', mandatory=(L <= 8)))
    J += sliding_families(P, G, tier, step=T(tier, 2, 1), pool=('resp-fold', 'resp-ignore'), max_off=30)
    J += longrun_families(P, G, tier, ('resp-lead-empty', 'resp-sp1', 'resp-sp2'))
    return J
