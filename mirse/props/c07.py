"""C07 - status line: accepted language and reported version/code/reason (product with the reference grammar)."""
from .jobs import *
REQUIRED_WITNESSES = ['C', 'P', 'E:Status', 'E:Version', 'E:NewLine']
BOUNDS = {'quick': 'every response buffer of 0..=12 bytes; split templates with 1..=7 symbolic bytes after the version / code; all 1000 codes (digits symbolic, one arithmetic query per path); multi-space option symbolic throughout',
          'thorough': 'every response buffer of 0..=15 bytes; split templates to 10 symbolic bytes; reasons to 24 bytes'}
OUTSIDE = 'longer status lines'
ASSUMPTIONS = ['reference model /verif/refmodel transcribes the status-line grammar of the property text']


def jobs(tier, seed):
    P = 'C07'; G = ['ref']
    J = startline_families(P, G, tier, which=('resp',))
    for L in (range(0, 13, 3) if tier == 'quick' else range(0, 25, 2)):
        J.append(product_job(P, f'reason-L{L}', G, sc('resp', L, prefix=b'HTTP/1.0 301 ', suffix=b'\r\n\n', api='parse', cap=1,
                             fixed={i: [b for b in range(256) if b not in (10, 13)] for i in range(L)}), T(tier, 60, 300),
                             f'"HTTP/1.0 301 " + {L} symbolic reason bytes (any value but CR/LF) + CRLF LF', family='reason', mandatory=(L <= 6)))
    return J
