"""C09 - chunk size: exact value, no overflow, exact accepted language, same in debug and release.
Engine K (Kani/CBMC over the compiled crate, both profiles, reference model as the spec) for long digit runs; engine M
(product with the reference on the real MIR of both profiles, plus profile-vs-profile equality) for all short inputs."""
import os, time
import z3
from .jobs import *
from .. import sym, kani_run
from ..harness import Scenario, instantiate, run_impl
from . import common
from .common import Leaf
from .c02 import same_field

REQUIRED_WITNESSES = ['C', 'P', 'E:InvalidChunkSize']
BOUNDS = {'quick': 'Kani: every buffer of <= 12 bytes (exact value, offset, accepted language; debug-assertion and release control flow, CBMC overflow checks on); engine M: every buffer of <= 5 bytes on release MIR, <= 4 on debug MIR with identical-result assertion, digit-run templates of 15/16/17 hex digits with the first and last two digits symbolic; extensions and whitespace runs of every length 0..=24 with a 2-byte symbolic window at every offset, followed by CRLF and chunk data',
          'thorough': 'Kani: every buffer of <= 20 bytes (covers 0..=17+ digits with every digit pattern); engine M: <= 7 / 6 bytes, templates with 4 symbolic digits; extension / whitespace runs to 40 bytes with a 3-byte window'}
OUTSIDE = 'buffers longer than 20 bytes (extensions of arbitrary length are covered only up to the bound)'
EXPLANATION = 'Kani harness chunk_spec_N: parse_chunk_size(buf[..len]) == refmodel::ref_chunk(buf[..len]) for symbolic buf and len; unwinding assertions on; counterexamples are extracted with concrete playback and replayed natively'
ASSUMPTIONS = ['Kani/CBMC model of the compiled crate', 'refmodel::ref_chunk transcribes the accepted language of the property text']


def leaf_profiles(E, params):
    """release MIR vs debug-assertion MIR on the same symbolic bytes: identical result (C09 last sentence, C13 profile part)"""
    sc0 = Scenario(**params['scenario'])
    I = instantiate(E, sc0)
    a = run_impl(E, I, variant='swar-rel')
    b = run_impl(E, I, variant='swar-dbg')
    L = Leaf(E, I, params['prop'])
    if 'PANIC' in (a.status, b.status):
        L.concrete(False, f'release MIR: {a.status} {a.panic or ""}; debug MIR: {b.status} {b.panic or ""}')
    else:
        L.concrete(a.status == b.status and a.n == b.n, f'release build: {a.status} n={a.n}; debug build: {b.status} n={b.n}')
        if a.status == 'C' and b.status == 'C' and a.size is not None: same_field(L, 'size', a.size, b.size)
    viol = L.finish(common.predicted_json(E, I, a))
    for v in viol:
        v['rel'] = 'same'; e = common.entry_name(sc0.kind, sc0.api)
        v['runs'] = [{'entry': e, 'flags': v['flags'], 'cap': sc0.cap, 'buf': v['buf'], 'profile': 'release-swar'},
                     {'entry': e, 'flags': v['flags'], 'cap': sc0.cap, 'buf': v['buf'], 'profile': 'dev-swar'}]
    lab = common.outcome_label(a)
    rec = {'outcome': lab, 'obligations': L.nobl, 'violations': viol, 'witnesses': {lab: 1}}
    s = common.sample_of(E, I, a, f' | debug build: {common.outcome_label(b)}')
    if s: rec['sample'] = s
    common.add_validation(rec, E, I, a, params)
    return rec


HEX = [b for b in b'0123456789abcdefABCDEF']


def jobs(tier, seed):
    P = 'C09'; J = []
    bud = T(tier, 100, 900)
    J += deepen(P, ['ref', 'framing', 'safety'], 'chunk-rel', lambda n: sc('chunk', n, variant='swar-rel'), range(0, T(tier, 5, 7) + 1), bud,
                'parse_chunk_size (release MIR) vs reference, every {n}-byte buffer', 5)
    J += deepen(P, ['ref', 'safety'], 'chunk-dbg', lambda n: sc('chunk', n, variant='swar-dbg'), range(T(tier, 4, 0), T(tier, 4, 6) + 1), bud,
                'parse_chunk_size (debug-assertion MIR) vs reference, every {n}-byte buffer', 4)
    J += deepen(P, ['same'], 'chunk-profiles', lambda n: sc('chunk', n, variant='swar-rel'), range(T(tier, 3, 0), T(tier, 4, 6) + 1), bud,
                'release MIR vs debug MIR, identical result on every {n}-byte buffer', 4, fn='mirse.props.c09.leaf_profiles', variants=['swar-rel', 'swar-dbg'])
    # long digit runs: concrete 'f's with symbolic digits at both ends, terminated, in both profiles
    for nd in (14, 15, 16, 17):
        for variant in ('swar-rel', 'swar-dbg'):
            k = T(tier, 1, 2)
            pre = b''; mid = b'f' * (nd - 2 * k)
            fixed = {i: HEX for i in range(2 * k)}
            # layout: k symbolic digits, mid, k symbolic digits -> expressed as prefix/suffix around ONE symbolic block is not possible;
            # use two templates: symbolic head + concrete tail, and concrete head + symbolic tail
            J.append(product_job(P, f'digits{nd}-head-{variant}', ['ref', 'safety'], sc('chunk', k, prefix=b'', suffix=b'f' * (nd - k) + b'\r\n', variant=variant, fixed={i: HEX for i in range(k)}),
                                 bud, f'{k} symbolic hex digit(s) + {nd - k} x "f" + CRLF ({variant})', mandatory=True))
            J.append(product_job(P, f'digits{nd}-tail-{variant}', ['ref', 'safety'], sc('chunk', k, prefix=b'f' * (nd - k), suffix=b'\r\n', variant=variant, fixed={i: HEX for i in range(k)}),
                                 bud, f'{nd - k} x "f" + {k} symbolic hex digit(s) + CRLF ({variant})', mandatory=True))
            J.append(product_job(P, f'digits{nd}-zeros-{variant}', ['ref', 'safety'], sc('chunk', k, prefix=b'0' * (nd - k), suffix=b'\r\n', variant=variant, fixed={i: HEX for i in range(k)}),
                                 bud, f'{nd - k} x "0" + {k} symbolic hex digit(s) + CRLF ({variant})', mandatory=True))
    # long extensions / whitespace runs (a block-wise fast path only runs when 8+ bytes are in view): a symbolic window slid over an
    # extension of every length 0..=24 (quick: 2 bytes, step 1) followed by the CRLF and by chunk data that contains further CRLFs,
    # so that a missed or an invented terminator changes (n, size)
    w = T(tier, 2, 3); TAIL = b'\r\nabcd\refgh\r\n0\r\n\r\n'
    for L in range(0, T(tier, 24, 40) + 1):
        for fill, nm, head in ((b'x', 'ext', b'1f;'), (b' ', 'ws', b'A'), (b'\t', 'ws-ext', b'0 ;')):
            body = (fill * L) if nm != 'ws-ext' else (b'y' * L)
            offs = range(0, max(1, L - w + 1)) if L >= w else [0]
            for off in offs:
                ns = min(w, L)
                if ns == 0:
                    if nm != 'ext': continue
                    scx = sc('chunk', 1, prefix=head[:-1], suffix=TAIL, variant='swar-rel')
                else:
                    scx = sc('chunk', ns, prefix=head + body[:off], suffix=body[off + ns:] + TAIL, variant='swar-rel')
                jb = product_job(P, f'long-{nm}-L{L}-o{off}', ['ref', 'framing', 'safety'], scx, bud,
                                 f'{head!r} + run of {L} x {fill!r} with bytes {off}..{off + ns - 1} symbolic + CRLF + chunk data', family=f'long-{nm}', mandatory=False)
                jb.small = True; J.append(jb)
    for j in J:
        if j.name.startswith('digits'): j.small = True
    return J


def main(pid, tier, seed):
    from .. import runner
    n = 12 if tier == 'quick' else 20
    skip = os.environ.get('VERIF_SKIP_KANI') == '1'
    runs = []
    if not skip:
        runs.append(kani_run.KaniRun([f'chunk_spec_{n}', 'chunk_canary_reaches_complete'] + ([] if tier == 'quick' else ['chunk_partial_12']), True, 'dbg', timeout=T(tier, 285, 2600)))
        runs.append(kani_run.KaniRun([f'chunk_spec_{n}'] + ([] if tier == 'quick' else ['chunk_prefix_14']), False, 'rel', timeout=T(tier, 285, 2600)))

    def post():
        viol = []; msgs = []; cov = {'kani': []}
        for r in runs:
            res = r.wait()
            cov['kani'].append({'profile': res['profile'], 'wall_s': res['wall_s'], 'harnesses': {k: {kk: vv for kk, vv in v.items() if kk != 'playback'} for k, v in res['harnesses'].items()}})
            if res.get('compile_error'): msgs.append('kani harness crate does not compile against this tree: ' + res['compile_error'][-400:]); continue
            if res.get('error') == 'timeout':
                # the deeper (Kani) bound did not finish inside the tier's wall-clock cap: stated, not a failure - the engine-M bounds above are the claim of this run
                cov['kani'][-1]['note'] = 'TIMED OUT: the Kani bound was not completed in this run; only harnesses listed as SUCCESSFUL count'
                for name, h in res['harnesses'].items():
                    if h['status'] == 'FAILED' and 'canary' not in name and not h.get('unwind_insufficient'): pass
                    elif h['status'] in (None, 'MISSING'): h['status'] = 'NOT COMPLETED'
            for name, h in res['harnesses'].items():
                if 'canary' in name:
                    if h['status'] == 'NOT COMPLETED': continue
                    if h['status'] != 'FAILED' or not any('canary' in f for f in h['failed']): msgs.append(f'kani vacuity canary {name}: expected FAILED, got {h["status"]}')
                    continue
                if h['status'] == 'SUCCESSFUL': continue
                if h['status'] == 'FAILED':
                    if h.get('unwind_insufficient'): msgs.append(f'kani {name}: unwinding assertion failed (bound too small)'); continue
                    nb = int(name.split('_')[-1]) if name.split('_')[-1].isdigit() else 0
                    buf, ints = kani_run.playback_to_input(h.get('playback') or [], nb)
                    arith = [f for f in h['failed'] if 'overflow' in f or 'arithmetic' in f]
                    if buf is None:
                        msgs.append(f'kani {name} FAILED ({h["failed"][:2]}) but no concrete playback could be extracted'); continue
                    ln = ints[0] if ints else nb
                    data = buf[:min(ln, nb)]
                    if 'prefix' in name and len(ints) >= 2:
                        v = {'prop': 'C09', 'msg': f'kani {name} ({res["profile"]}): {h["failed"][:2]}', 'scenario': f'kani {name}', 'kind': 'chunk', 'api': 'parse', 'variant': 'swar-rel',
                             'flags': 0, 'cap': 0, 'buf': data.hex(), 'rel': 'stream', 'split': min(ints[1], len(data)), 'predicted': None, 'groups': ['ref']}
                    elif 'partial' in name:
                        v = {'prop': 'C09', 'msg': f'kani {name} ({res["profile"]}): {h["failed"][:2]}', 'scenario': f'kani {name}', 'kind': 'chunk', 'api': 'parse', 'variant': 'swar-rel',
                             'flags': 0, 'cap': 0, 'buf': data.hex(), 'rel': 'completable', 'sigmas': [b'\r\n'.hex(), b'\n'.hex(), b'0\r\n'.hex()], 'predicted': None, 'groups': ['ref']}
                    else:
                        v = {'prop': 'C09', 'msg': f'kani {name} ({res["profile"]}): {h["failed"][:3]}', 'scenario': f'kani {name}', 'kind': 'chunk', 'api': 'parse',
                             'variant': 'swar-rel' if not r.dbg else 'swar-dbg', 'flags': 0, 'cap': 0, 'buf': data.hex(), 'predicted': None, 'groups': ['ref']}
                        if arith and not r.dbg:
                            # a wrap that only exists with debug assertions off: the native confirmation is release vs debug / reference
                            v['note'] = 'arithmetic overflow reported by CBMC in the release control flow'
                    viol.append(v)
                elif h['status'] == 'NOT COMPLETED':
                    pass
                else:
                    msgs.append(f'kani {name}: {h["status"]} ({res.get("error", "")})')
        return viol, msgs, cov
    try:
        return runner.run_property(pid, tier, seed, post=post if not skip else None)
    finally:
        for r in runs: r.kill()
