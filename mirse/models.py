"""Environment models: the `core` items httparse calls whose MIR is not in the crate's dump, plus the
x86 / NEON intrinsics as lane-wise bit-vector functions.  This file is the trusted base of engine M;
`MODEL_NAMES` is reported in every evidence file."""
import re
import z3
from . import sym
from .sym import N
from .engine import (IntV, BoolV, AddrV, Ref, EnumV, FnV, UNINIT, UNIT, Table, Panic, Unsupported, nav, clone, sx)


def opt_some(E, x): return EnumV('Option', 'Some', 1, [x])
def opt_none(E): return EnumV('Option', 'None', 0, [])
def res_ok(x): return EnumV('Result', 'Ok', 0, [x])
def res_err(x): return EnumV('Result', 'Err', 1, [x])


def deref(r):
    c, k = nav(r)
    if c.__class__ is list and k >= len(c): raise Panic('oob', 'dereference past the end of allocation')
    v = c[k]
    if v is UNINIT: raise Panic('uninit', 'read of uninitialized memory through pointer')
    return v


def sub_slice(r, start, ln):
    return Ref(r.root, r.path[:-1] + (r.path[-1] + start,), ln, r.alloc)


def read_elems(E, r, n, what='read'):
    c, k = nav(r)
    if k + n > len(c) or k < 0:
        raise Panic('oob', f'out-of-bounds {what}: {n} byte(s) at offset {k} of an allocation of {len(c)}')
    h = E.hooks.get('readn')
    if h: h(c, k, n)
    out = c[k:k + n]
    for v in out:
        if v is UNINIT: raise Panic('uninit', 'read of uninitialized memory')
    return out


def cint(E, v, lo=0, hi=None):
    """force a concrete python int out of an IntV (case-splitting if symbolic)"""
    if v.conc(): return sx(v) if v.s else v.v
    return E.concretize(v, lo, hi if hi is not None else 64).v


# ---------------------------------------------------------------- Try / Option / Result
def m_try_branch(E, path, a):
    v = a[0]
    if v.ty == 'Result':
        if v.var == 'Ok': return EnumV('ControlFlow', 'Continue', 0, [v.fields[0]])
        return EnumV('ControlFlow', 'Break', 1, [EnumV('Result', 'Err', 1, [v.fields[0]])])
    if v.var == 'Some': return EnumV('ControlFlow', 'Continue', 0, [v.fields[0]])
    return EnumV('ControlFlow', 'Break', 1, [opt_none(E)])


def m_from_residual(E, path, a):
    v = a[0]
    if v.ty == 'Result': return EnumV('Result', 'Err', 1, [v.fields[0]])
    return opt_none(E)


def m_result_ok(E, path, a):
    v = a[0]
    return opt_some(E, v.fields[0]) if v.var == 'Ok' else opt_none(E)


def m_opt_is_some(E, path, a): return BoolV(deref(a[0]).var == 'Some')
def m_opt_is_none(E, path, a): return BoolV(deref(a[0]).var == 'None')
def m_res_is_ok(E, path, a): return BoolV(deref(a[0]).var == 'Ok')
def m_res_is_err(E, path, a): return BoolV(deref(a[0]).var == 'Err')


def m_unwrap(E, path, a):
    v = a[0]
    if v.var in ('Some', 'Ok'): return v.fields[0]
    raise Panic('panic', 'unwrap/expect on None/Err')


def m_unwrap_or(E, path, a):
    v = a[0]
    return v.fields[0] if v.var in ('Some', 'Ok') else a[1]


def _cell(r):
    c, k = nav(r); return c, k


def m_get_or_insert(E, path, a):
    c, k = _cell(a[0]); v = c[k]
    if v.var == 'None': c[k] = opt_some(E, a[1]); v = c[k]
    return Ref(v.fields, (0,), None, 'local')


def m_opt_insert(E, path, a):
    c, k = _cell(a[0]); c[k] = opt_some(E, a[1])
    return Ref(c[k].fields, (0,), None, 'local')


def m_opt_take(E, path, a):
    c, k = _cell(a[0]); v = c[k]; c[k] = opt_none(E); return v


def m_opt_replace(E, path, a):
    c, k = _cell(a[0]); v = c[k]; c[k] = opt_some(E, a[1]); return v


def m_opt_as_ref(E, path, a):
    v = deref(a[0])
    if v.var in ('Some', 'Ok'): return EnumV(v.ty, v.var, v.idx, [Ref(v.fields, (0,), None, 'local')])
    if v.var == 'Err': return EnumV(v.ty, v.var, v.idx, [Ref(v.fields, (0,), None, 'local')])
    return opt_none(E)


def m_opt_copied(E, path, a):
    v = a[0]
    if v.var == 'Some': return opt_some(E, clone(deref(v.fields[0])))
    return v


def m_opt_map(E, path, a):
    v = a[0]
    if v.var in ('Some', 'Ok'): return EnumV(v.ty, v.var, v.idx, [call_closure(E, a[1], [v.fields[0]])])
    return v


def m_opt_and_then(E, path, a):
    v = a[0]
    if v.var in ('Some', 'Ok'): return call_closure(E, a[1], [v.fields[0]])
    return v


def m_unwrap_or_else(E, path, a):
    v = a[0]
    if v.var in ('Some', 'Ok'): return v.fields[0]
    return call_closure(E, a[1], [v.fields[0]] if v.var == 'Err' else [])


def m_map_or(E, path, a):
    v = a[0]
    if v.var in ('Some', 'Ok'): return call_closure(E, a[2], [v.fields[0]])
    return a[1]


def m_opt_or(E, path, a):
    return a[0] if a[0].var in ('Some', 'Ok') else a[1]


def m_ok_or(E, path, a):
    v = a[0]
    return res_ok(v.fields[0]) if v.var == 'Some' else res_err(a[1])


def m_opt_eq(E, path, a):
    x, y = deref(a[0]), deref(a[1])
    if x.idx != y.idx: return BoolV(False)
    if x.var == 'None': return BoolV(True)
    return E.binop('Eq', x.fields[0], y.fields[0])


def m_opt_ne(E, path, a): return E.unop('Not', m_opt_eq(E, path, a))


# ---------------------------------------------------------------- slices / pointers
def m_as_ptr(E, path, a): r = a[0]; return Ref(r.root, r.path, None, r.alloc)
def m_len(E, path, a): return IntV(E.PW, a[0].meta)
def m_is_empty(E, path, a): return BoolV(a[0].meta == 0)


def m_asref_fwd(E, path, a):
    inner = deref(a[0])
    return E.call_path("<iter::Bytes<'_> as AsRef<[u8]>>::as_ref", [inner])


def m_get(E, path, a):
    s, ix = a
    if ix.__class__ is IntV:      # get(usize) -> Option<&T>
        i = cint(E, ix, 0, s.meta)
        if i < s.meta: return opt_some(E, sub_slice(s, i, None))
        return opt_none(E)
    if 'RangeTo<' in path or 'RangeTo>' in path or (len(ix) == 1 and 'RangeFrom' not in path):
        end = cint(E, ix[0], 0, s.meta + 1)
        if end <= s.meta: return opt_some(E, sub_slice(s, 0, end))
        return opt_none(E)
    if 'RangeFrom' in path:
        st = cint(E, ix[0], 0, s.meta + 1)
        if st <= s.meta: return opt_some(E, sub_slice(s, st, s.meta - st))
        return opt_none(E)
    st, en = cint(E, ix[0], 0, s.meta + 1), cint(E, ix[1], 0, s.meta + 1)
    if st <= en <= s.meta: return opt_some(E, sub_slice(s, st, en - st))
    return opt_none(E)


def m_get_unchecked(E, path, a):
    s, ix = a
    if ix.__class__ is IntV:
        i = cint(E, ix, 0, s.meta)
        if i >= s.meta: raise Panic('oob', 'get_unchecked index out of bounds (UB)')
        return sub_slice(s, i, None)
    if 'RangeFrom' in path:
        st = cint(E, ix[0], 0, s.meta + 1)
        if st > s.meta: raise Panic('oob', 'get_unchecked range start out of bounds (UB)')
        return sub_slice(s, st, s.meta - st)
    if len(ix) == 1:
        end = cint(E, ix[0], 0, s.meta + 1)
        if end > s.meta: raise Panic('oob', f'get_unchecked(..{end}) on a slice of length {s.meta} (UB)')
        return sub_slice(s, 0, end)
    st, en = cint(E, ix[0], 0, s.meta + 1), cint(E, ix[1], 0, s.meta + 1)
    if not st <= en <= s.meta: raise Panic('oob', 'get_unchecked range out of bounds (UB)')
    return sub_slice(s, st, en - st)


def m_index(E, path, a):
    s, ix = a
    if s.__class__ is Ref and s.meta is None:
        c, k = nav(s); arr = c[k]
        if arr.__class__ is list: s = Ref(arr, (0,), len(arr), s.alloc)
    if ix.__class__ is IntV:
        i = cint(E, ix, 0, s.meta)
        if i >= s.meta: raise Panic('bounds', 'index out of bounds')
        return sub_slice(s, i, None)
    if 'RangeFull' in path: return s
    if 'RangeFrom' in path:
        st = cint(E, ix[0], 0, s.meta + 1)
        if st > s.meta: raise Panic('bounds', 'slice start index out of range')
        return sub_slice(s, st, s.meta - st)
    if 'RangeTo<' in path or 'RangeTo>' in path or len(ix) == 1:
        en = cint(E, ix[0], 0, s.meta + 1)
        if en > s.meta: raise Panic('bounds', 'slice end index out of range')
        return sub_slice(s, 0, en)
    if 'RangeInclusive' in path:
        st, en = cint(E, ix[0], 0, s.meta + 1), cint(E, ix[1], 0, s.meta + 1) + 1
    else:
        st, en = cint(E, ix[0], 0, s.meta + 1), cint(E, ix[1], 0, s.meta + 1)
    if st > en or en > s.meta: raise Panic('bounds', 'slice index out of range')
    return sub_slice(s, st, en - st)


def m_split_at(E, path, a):
    s, mid = a; m = cint(E, mid, 0, s.meta + 1)
    if m > s.meta: raise Panic('bounds', 'split_at mid > len')
    return [sub_slice(s, 0, m), sub_slice(s, m, s.meta - m)]


def m_split_last(E, path, a):
    s = as_slice_ref(E, a[0])
    if s.meta == 0: return opt_none(E)
    return opt_some(E, [sub_slice(s, s.meta - 1, None), sub_slice(s, 0, s.meta - 1)])


def m_split_first(E, path, a):
    s = as_slice_ref(E, a[0])
    if s.meta == 0: return opt_none(E)
    return opt_some(E, [sub_slice(s, 0, None), sub_slice(s, 1, s.meta - 1)])


def m_int_from(E, path, a):
    m = re.search(r'<(\w+) as (?:From|Into)<(\w+)>>', path) or re.search(r'<(\w+) as (?:\w+::)*(?:From|Into)<(\w+)>>', path)
    if not m: raise Unsupported('conversion ' + path)
    dst, src = (m.group(1), m.group(2)) if 'From<' in path else (m.group(2), m.group(1))
    if dst not in E.WIDTH: raise Unsupported('conversion ' + path)
    return E.cast(a[0], dst, 'IntToInt')


def m_starts_with(E, path, a):
    s, t = as_slice_ref(E, a[0]), as_slice_ref(E, a[1])
    if t.meta > s.meta: return BoolV(False)
    acc = BoolV(True)
    for x, y in zip(read_elems(E, s, t.meta), read_elems(E, t, t.meta)): acc = E.binop('BitAnd', acc, E.binop('Eq', x, y))
    return acc


def m_slice_eq(E, path, a):
    s, t = as_slice_ref(E, deref(a[0]) if a[0].meta is None and deref(a[0]).__class__ is Ref else a[0]), as_slice_ref(E, deref(a[1]) if a[1].meta is None and deref(a[1]).__class__ is Ref else a[1])
    if s.meta != t.meta: return BoolV(False)
    acc = BoolV(True)
    for x, y in zip(read_elems(E, s, s.meta), read_elems(E, t, t.meta)): acc = E.binop('BitAnd', acc, E.binop('Eq', x, y))
    return acc


def m_contains(E, path, a):
    s = as_slice_ref(E, a[0]); x = deref(a[1])
    acc = BoolV(False)
    for y in read_elems(E, s, s.meta): acc = E.binop('BitOr', acc, E.binop('Eq', x, y))
    return acc


def m_first(E, path, a):
    s = a[0]
    return opt_some(E, sub_slice(s, 0, None)) if s.meta > 0 else opt_none(E)


def m_last(E, path, a):
    s = a[0]
    return opt_some(E, sub_slice(s, s.meta - 1, None)) if s.meta > 0 else opt_none(E)


def m_try_into(E, path, a):
    s = a[0]
    g = [p for p in E.gstack if re.search(r'\[u8; (\d+)\]', p)]
    mm = re.search(r'\[u8; (\d+)\]', path) or (re.search(r'\[u8; (\d+)\]', g[-1]) if g else None)
    if not mm: raise Unsupported('try_into target type unknown: ' + path)
    n = int(mm.group(1))
    if s.meta != n: return res_err(UNIT)
    return res_ok(list(read_elems(E, s, n)))


def m_from_ne_bytes(E, path, a):
    bs = a[0]
    if all(b.conc() for b in bs): return IntV(8 * len(bs), sum(b.v << (8 * i) for i, b in enumerate(bs)))
    return IntV(8 * len(bs), sym.concat_bytes([b.v for b in bs]))


def m_from_be_bytes(E, path, a):
    return m_from_ne_bytes(E, path, [list(reversed(a[0]))])


def m_to_ne_bytes(E, path, a):
    v = a[0]
    if v.conc(): return [IntV(8, (v.v >> (8 * i)) & 255) for i in range(v.w // 8)]
    return [IntV(8, sym.extract_byte(v.v, i)) for i in range(v.w // 8)]


def m_wrapping(op):
    def f(E, path, a): return E.binop(op, a[0], a[1])
    return f


def m_checked(op):
    def f(E, path, a):
        r = E.binop(op + 'WithOverflow', a[0], a[1])
        if E.branch_bool(r[1]): return opt_none(E)
        return opt_some(E, r[0])
    return f


def m_overflowing(op):
    def f(E, path, a): return E.binop(op + 'WithOverflow', a[0], a[1])
    return f


def m_saturating(op):
    def f(E, path, a):
        r = E.binop(op + 'WithOverflow', a[0], a[1])
        if E.branch_bool(r[1]):
            w = a[0].w
            return IntV(w, (1 << w) - 1 if op in ('Add', 'Mul') else 0, a[0].s)
        return r[0]
    return f


def m_minmax(which):
    def f(E, path, a):
        c = E.binop('Le', a[0], a[1])
        le = E.branch_bool(c)
        return (a[0] if le else a[1]) if which == 'min' else (a[1] if le else a[0])
    return f


def m_ptr_add(E, path, a):
    r, n = a
    if not n.conc():
        c, k = nav(r)
        n = E.concretize(n, 0, len(c) - k + 1)    # +1: an out-of-bounds advance must be *findable*
    h = E.hooks.get('ptr_add')
    if h: h(r, sx(n) if n.s else n.v)
    return E.ptr_offset(r, sx(n) if n.s else n.v)


def m_ptr_wrapping(sign):
    def f(E, path, a):
        r, n = a
        if not n.conc(): n = E.concretize(n, 0, 1 << 12)
        k = (sx(n) if n.s else n.v) * sign
        return Ref(r.root, r.path[:-1] + (r.path[-1] + k,), r.meta, r.alloc)
    return f


def m_ptr_sub(E, path, a):
    r, n = a
    if not n.conc(): n = E.concretize(n, 0, r.path[-1] + 1)
    return E.ptr_offset(r, -(n.v))


def m_ptr_offset(E, path, a):
    r, n = a
    if not n.conc(): raise Unsupported('symbolic ptr.offset')
    return E.ptr_offset(r, sx(IntV(n.w, n.v, True)))


def m_offset_from(E, path, a):
    if not E.same_alloc(a[0], a[1]): raise Panic('oob', 'offset_from across allocations (UB)')
    return IntV(E.PW, a[0].path[-1] - a[1].path[-1], True)


def m_ptr_addr(E, path, a):
    v = a[0]
    return AddrV(E.PW, v.alloc, nav(v)[0], v.path[-1])


def m_from_raw_parts(E, path, a):
    r, n = a; c, k = nav(r)
    ln = cint(E, n, 0, len(c) - k + 1)
    if k + ln > len(c): raise Panic('oob', f'from_raw_parts: {ln} elements at offset {k} of an allocation of {len(c)} (UB)')
    return Ref(r.root, r.path, ln, r.alloc)


def m_ptr_read(E, path, a): return clone(deref(a[0]))


def m_ptr_write(E, path, a):
    c, k = nav(a[0])
    if k >= len(c): raise Panic('oob', 'write past the end of allocation')
    c[k] = a[1]; return UNIT


def m_take(E, path, a):
    c, k = nav(a[0]); old = c[k]
    if old.__class__ is Ref and old.meta is not None: c[k] = Ref([], (0,), 0, 'empty')
    elif old.__class__ is BoolV: c[k] = BoolV(False)
    elif old.__class__ is IntV: c[k] = IntV(old.w, 0, old.s)
    elif old.__class__ is EnumV and old.ty == 'Option': c[k] = opt_none(E)
    else: raise Unsupported('mem::take of ' + repr(old))
    return old


def m_replace(E, path, a):
    c, k = nav(a[0]); old = c[k]; c[k] = a[1]; return old


def m_swap(E, path, a):
    c1, k1 = nav(a[0]); c2, k2 = nav(a[1]); c1[k1], c2[k2] = c2[k2], c1[k1]; return UNIT


def m_size_of(E, path, a):
    m = re.search(r'size_of::<(.*)>$', path)
    t = m.group(1) if m else ''
    if t in E.WIDTH: return IntV(E.PW, max(1, E.WIDTH[t] // 8))
    mm = re.match(r'^\[u8; (\d+)\]$', t)
    if mm: return IntV(E.PW, int(mm.group(1)))
    raise Unsupported('size_of ' + t)


# ---------------------------------------------------------------- iterators (lists: [kind, ...])
def as_slice_ref(E, s):
    if s.__class__ is Ref and s.meta is None:
        c, k = nav(s); arr = c[k]
        if arr.__class__ is list: return Ref(arr, (0,), len(arr), s.alloc)
    if s.__class__ is list:
        return Ref(s, (0,), len(s), 'local')
    return s


def m_iter(E, path, a): s = as_slice_ref(E, a[0]); return ['iter', s, 0, s.meta]
def m_enumerate(E, path, a): return ['enum', a[0], 0]
def m_copied(E, path, a): return ['copied', a[0]]
def m_rev(E, path, a): return ['rev', a[0]]
def m_into_iter(E, path, a):
    v = a[0]
    if v.__class__ is list and v and v[0] in ('iter', 'enum', 'copied', 'rev', 'range', 'arr', 'chain', 'chunks', 'take', 'skip', 'map', 'filter', 'take_while', 'skip_while'): return v
    if v.__class__ is EnumV and v.ty == 'Option': return m_opt_into_iter(E, path, [v])
    if v.__class__ is Ref: s = as_slice_ref(E, v); return ['iter', s, 0, s.meta]
    if v.__class__ is list and len(v) == 2 and all(x.__class__ is IntV for x in v): return ['range', v[0], v[1]]
    if v.__class__ is list: return ['arr', v, 0]
    return v


def it_next(E, it, back=False):
    k = it[0]
    if k == 'iter':
        if it[2] >= it[3]: return opt_none(E)
        if back: it[3] -= 1; i = it[3]
        else: i = it[2]; it[2] += 1
        r = sub_slice(it[1], i, None)
        c, kk = nav(r)
        if kk >= len(c): raise Panic('oob', 'slice iterator past allocation')
        return opt_some(E, r)
    if k == 'chunks':
        if back: raise Unsupported('chunks iterator from the back')
        rem = it[1].meta - it[2]; sz = it[3]
        if sz == 0: raise Panic('panic', 'chunk size must be non-zero')
        if rem >= sz: n = sz
        elif rem > 0 and not it[4]: n = rem
        else: return opt_none(E)
        r = sub_slice(it[1], it[2], n); it[2] += n
        return opt_some(E, r)
    if k == 'copied':
        x = it_next(E, it[1], back)
        if x.var == 'Some':
            r = x.fields[0]
            v = deref(r)
            h = E.hooks.get('read')
            if h: h(*nav(r))
            return opt_some(E, clone(v))
        return x
    if k == 'enum':
        x = it_next(E, it[1], back)
        if x.var == 'None': return x
        i = it[2]; it[2] += 1
        return opt_some(E, [IntV(E.PW, i), x.fields[0]])
    if k == 'rev':
        return it_next(E, it[1], not back)
    if k == 'range':
        lo, hi = it[1], it[2]
        if not (lo.conc() and hi.conc()): raise Unsupported('symbolic range iteration')
        if lo.v >= hi.v: return opt_none(E)
        it[1] = IntV(lo.w, lo.v + 1, lo.s)
        return opt_some(E, lo)
    if k == 'arr':
        if it[2] >= len(it[1]): return opt_none(E)
        v = it[1][it[2]]; it[2] += 1
        return opt_some(E, v)
    if k == 'chain':
        if it[3] == 0:
            x = it_next(E, it[1], back)
            if x.var == 'Some': return x
            it[3] = 1
        return it_next(E, it[2], back)
    if k == 'take':
        if it[2] <= 0: return opt_none(E)
        it[2] -= 1; return it_next(E, it[1], back)
    if k == 'skip':
        while it[2] > 0:
            it[2] -= 1
            if it_next(E, it[1]).var == 'None': return opt_none(E)
        return it_next(E, it[1], back)
    if k == 'map':
        x = it_next(E, it[1], back)
        if x.var == 'None': return x
        return opt_some(E, call_closure(E, it[2], [x.fields[0]]))
    if k == 'filter':
        while True:
            x = it_next(E, it[1], back)
            if x.var == 'None': return x
            box = [x.fields[0]]
            if E.branch_bool(call_closure(E, it[2], [Ref(box, (0,), None, 'local')])): return x
    if k == 'take_while':
        if it[3]: return opt_none(E)
        x = it_next(E, it[1])
        if x.var == 'None': return x
        box = [x.fields[0]]
        if E.branch_bool(call_closure(E, it[2], [Ref(box, (0,), None, 'local')])): return x
        it[3] = True; return opt_none(E)
    if k == 'skip_while':
        while not it[3]:
            x = it_next(E, it[1])
            if x.var == 'None': return x
            box = [x.fields[0]]
            if not E.branch_bool(call_closure(E, it[2], [Ref(box, (0,), None, 'local')])): it[3] = True; return x
        return it_next(E, it[1])
    raise Unsupported('iterator ' + str(k))


def m_chunks_exact(E, path, a):
    s = as_slice_ref(E, a[0]); return ['chunks', s, 0, cint(E, a[1], 0, 1 << 16), True]
def m_chunks(E, path, a):
    s = as_slice_ref(E, a[0]); return ['chunks', s, 0, cint(E, a[1], 0, 1 << 16), False]


def m_copy_from_slice(E, path, a):
    dst, src = as_slice_ref(E, a[0]), as_slice_ref(E, a[1])
    n = dst.meta
    if src.meta != n: raise Panic('panic', f'copy_from_slice: source length {src.meta} does not match destination length {n}')
    elems = read_elems(E, src, n, 'copy_from_slice read')
    c, k = nav(dst)
    if k < 0 or k + n > len(c): raise Panic('oob', f'out-of-bounds copy_from_slice write: {n} element(s) at offset {k} of an allocation of {len(c)}')
    for i, v in enumerate(elems): c[k + i] = clone(v)
    return UNIT


def m_chain(E, path, a): return ['chain', m_into_iter(E, path, [a[0]]), m_into_iter(E, path, [a[1]]), 0]
def m_it_take(E, path, a): return ['take', a[0], cint(E, a[1], 0, 1 << 16)]
def m_it_skip(E, path, a): return ['skip', a[0], cint(E, a[1], 0, 1 << 16)]
def m_map_it(E, path, a): return ['map', a[0], a[1]]
def m_filter_it(E, path, a): return ['filter', a[0], a[1]]
def m_take_while(E, path, a): return ['take_while', a[0], a[1], False]
def m_skip_while(E, path, a): return ['skip_while', a[0], a[1], False]


def m_opt_into_iter(E, path, a):
    v = a[0]
    return ['arr', [v.fields[0]] if v.var == 'Some' else [], 0]


def it_all(E, it, limit=100000):
    out = []
    while True:
        x = it_next(E, it)
        if x.var == 'None': return out
        out.append(x.fields[0])
        if len(out) > limit: raise Unsupported('iterator too long')


def m_minmax_it(which):
    def f(E, path, a):
        it = a[0] if a[0].__class__ is list else deref(a[0])
        xs = it_all(E, it)
        if not xs: return opt_none(E)
        best = xs[0]
        for x in xs[1:]:
            lt = E.branch_bool(E.binop('Lt', x, best))
            if (which == 'min' and lt) or (which == 'max' and not lt): best = x
        return opt_some(E, best)
    return f


def m_count(E, path, a):
    it = a[0] if a[0].__class__ is list else deref(a[0])
    return IntV(E.PW, len(it_all(E, it)))


def m_last(E, path, a):
    it = a[0] if a[0].__class__ is list else deref(a[0])
    xs = it_all(E, it)
    return opt_some(E, xs[-1]) if xs else opt_none(E)


def m_nth(E, path, a):
    it = deref(a[0]); n = cint(E, a[1], 0, 1 << 16)
    for _ in range(n):
        if it_next(E, it).var == 'None': return opt_none(E)
    return it_next(E, it)


def m_find(E, path, a):
    it = deref(a[0]) if a[0].__class__ is Ref else a[0]
    while True:
        x = it_next(E, it)
        if x.var == 'None': return x
        box = [x.fields[0]]
        if E.branch_bool(call_closure(E, a[1], [Ref(box, (0,), None, 'local')])): return x


def m_fold(E, path, a):
    it = a[0] if a[0].__class__ is list else deref(a[0]); acc = a[1]
    for x in it_all(E, it): acc = call_closure(E, a[2], [acc, x])
    return acc


def m_sum(E, path, a):
    it = a[0] if a[0].__class__ is list else deref(a[0])
    xs = it_all(E, it)
    if not xs: return IntV(E.PW, 0)
    acc = xs[0]
    for x in xs[1:]: acc = E.binop('Add', acc, x)
    return acc


def m_mu_as_ptr(E, path, a): return a[0]


def m_it_next(E, path, a): return it_next(E, deref(a[0]))
def m_it_next_back(E, path, a): return it_next(E, deref(a[0]), True)


def m_it_len(E, path, a):
    it = deref(a[0])
    if it[0] == 'iter': return IntV(E.PW, it[3] - it[2])
    raise Unsupported('len of iterator ' + it[0])


def call_closure(E, clo, args):
    """clo: FnV naming a closure or fn item; args: list of call arguments (already a list)"""
    name = clo.name
    m = re.match(r'^\{closure@(.*?):(\d+):(\d+): (\d+):(\d+)\}', name)
    if m:
        key = name
        f = E.closure_index().get((m.group(1), int(m.group(2)), int(m.group(3))))
        if f is None: raise Unsupported('closure body not found: ' + name)
        box = [clo]
        return E.call_func(f, [Ref(box, (0,), None, 'local')] + list(args))
    return E.call_path(name, list(args))


def closure_pred_byte(E, clo, r):
    """call closure(&u8)->bool on reference r; summarised over the byte when it is unary"""
    return call_closure(E, clo, [r])


def m_rposition(E, path, a):
    it = deref(a[0]) if a[0].__class__ is Ref else a[0]
    clo = a[1]
    if it[0] != 'iter': raise Unsupported('rposition on ' + it[0])
    i = it[3]
    while i > it[2]:
        i -= 1
        r = sub_slice(it[1], i, None)
        res = summarized_pred(E, clo, r)
        if E.branch_bool(res): return opt_some(E, IntV(E.PW, i - it[2]))
    return opt_none(E)


def m_position(E, path, a):
    it = deref(a[0]) if a[0].__class__ is Ref else a[0]
    clo = a[1]
    if it[0] != 'iter': raise Unsupported('position on ' + it[0])
    i = it[2]
    while i < it[3]:
        r = sub_slice(it[1], i, None)
        res = summarized_pred(E, clo, r)
        if E.branch_bool(res): return opt_some(E, IntV(E.PW, i - it[2]))
        i += 1
    return opt_none(E)


def summarized_pred(E, clo, r):
    """closure(&u8) -> bool applied to the byte behind r; folded into one unary node when possible"""
    v = deref(r)
    h = E.hooks.get('read')
    if h: h(*nav(r))
    if v.__class__ is IntV and not v.conc() and v.v.var is not None and v.w == 8:
        envkey = None
        if clo.env is not None:
            # a generic closure is shared by all instantiations: what it captured is part of its identity
            envkey = tuple(x.name if x.__class__ is FnV and x.env is None else None for x in clo.env)
            if None in envkey: return call_closure(E, clo, [r])       # captures data: not summarised
        key = ('clo', E.P.name, clo.name, envkey, v.v.tid)
        res = E.summary_cache.get(key)
        if res is None:
            res = E.summarize_generic(lambda node: call_closure(E, clo, [Ref([IntV(8, node)], (0,), None, 'local')]), v.v)
            E.summary_cache[key] = res
        if res != -1:
            import numpy as np
            tab = np.array([(res >> i) & 1 for i in range(256)], dtype=bool)
            node = N(0, v.v.var, sym.intern(tab), 'Summ', (clo.name, v.v))
            node._z = sym.zmask(sym.zvar(v.v.var), res)
            return BoolV(node)
    return call_closure(E, clo, [r])


def m_any_all(which):
    def f(E, path, a):
        it = deref(a[0]) if a[0].__class__ is Ref else a[0]
        clo = a[1]
        while True:
            x = it_next(E, it)
            if x.var == 'None': return BoolV(which == 'all')
            res = call_closure(E, clo, [x.fields[0]])
            if E.branch_bool(res) == (which == 'any'): return BoolV(which == 'any')
    return f


def m_identity(E, path, a): return a[0]
def m_false(E, path, a): return BoolV(False)
def m_unit(E, path, a): return UNIT


def m_range_new(E, path, a): return [a[0], a[1], BoolV(False)]


def m_range_contains(E, path, a):
    r = deref(a[0]); x = deref(a[1])
    if 'RangeInclusive' in path:
        lo = E.binop('Le', r[0], x); hi = E.binop('Le', x, r[1])
    else:
        lo = E.binop('Le', r[0], x); hi = E.binop('Lt', x, r[1])
    return E.binop('BitAnd', lo, hi)


def m_panic(E, path, a): raise Panic('panic', 'explicit panic: ' + path)


def m_fn_call(E, path, a):
    f = a[0]
    if f.__class__ is Ref: f = deref(f)
    return call_closure(E, f, list(a[1]))


# ---------------------------------------------------------------- u8 classification helpers
def byte_pred(name, fn):
    data = tuple(1 if fn(i) else 0 for i in range(256))

    def f(E, path, a):
        v = a[0]
        if v.__class__ is Ref: v = deref(v)
        if v.conc(): return BoolV(bool(data[v.v]))
        return BoolV(sym.table_lookup(data, v.v, True))
    return f


def byte_map(name, fn):
    data = tuple(fn(i) for i in range(256))

    def f(E, path, a):
        v = a[0]
        if v.__class__ is Ref: v = deref(v)
        if v.conc(): return IntV(8, data[v.v])
        return IntV(8, sym.table_lookup(data, v.v, False))
    return f


U8_PREDS = {
    'is_ascii_digit': lambda b: 48 <= b <= 57,
    'is_ascii_hexdigit': lambda b: 48 <= b <= 57 or 65 <= b <= 70 or 97 <= b <= 102,
    'is_ascii_alphabetic': lambda b: 65 <= b <= 90 or 97 <= b <= 122,
    'is_ascii_alphanumeric': lambda b: 48 <= b <= 57 or 65 <= b <= 90 or 97 <= b <= 122,
    'is_ascii_uppercase': lambda b: 65 <= b <= 90,
    'is_ascii_lowercase': lambda b: 97 <= b <= 122,
    'is_ascii_graphic': lambda b: 0x21 <= b <= 0x7e,
    'is_ascii_whitespace': lambda b: b in (9, 10, 12, 13, 32),
    'is_ascii_control': lambda b: b < 32 or b == 127,
    'is_ascii_punctuation': lambda b: 33 <= b <= 47 or 58 <= b <= 64 or 91 <= b <= 96 or 123 <= b <= 126,
    'is_ascii': lambda b: b < 128,
}
U8_MAPS = {
    'to_ascii_lowercase': lambda b: b + 32 if 65 <= b <= 90 else b,
    'to_ascii_uppercase': lambda b: b - 32 if 97 <= b <= 122 else b,
}


# ---------------------------------------------------------------- UTF-8 (Unicode Table 3-7)
def m_from_utf8(E, path, a):
    s = a[0]
    bs = read_elems(E, s, s.meta, 'from_utf8 read')
    h = E.hooks.get('utf8')
    if h: h(s)
    i = 0; n = len(bs)

    def inr(b, lo, hi):
        return E.branch_bool(E.binop('BitAnd', E.binop('Le', IntV(8, lo), b), E.binop('Le', b, IntV(8, hi))))
    err = res_err(UNIT)
    while i < n:
        b = bs[i]
        if inr(b, 0, 0x7f): i += 1; continue

        def cont(j, lo=0x80, hi=0xbf): return j < n and inr(bs[j], lo, hi)
        if inr(b, 0xc2, 0xdf):
            if not cont(i + 1): return err
            i += 2
        elif inr(b, 0xe0, 0xe0):
            if not (cont(i + 1, 0xa0, 0xbf) and cont(i + 2)): return err
            i += 3
        elif inr(b, 0xe1, 0xec) or inr(b, 0xee, 0xef):
            if not (cont(i + 1) and cont(i + 2)): return err
            i += 3
        elif inr(b, 0xed, 0xed):
            if not (cont(i + 1, 0x80, 0x9f) and cont(i + 2)): return err
            i += 3
        elif inr(b, 0xf0, 0xf0):
            if not (cont(i + 1, 0x90, 0xbf) and cont(i + 2) and cont(i + 3)): return err
            i += 4
        elif inr(b, 0xf1, 0xf3):
            if not (cont(i + 1) and cont(i + 2) and cont(i + 3)): return err
            i += 4
        elif inr(b, 0xf4, 0xf4):
            if not (cont(i + 1, 0x80, 0x8f) and cont(i + 2) and cont(i + 3)): return err
            i += 4
        else: return err
    return res_ok(s)


def m_from_utf8_unchecked(E, path, a):
    h = E.hooks.get('utf8_unchecked')
    if h: h(a[0])
    return a[0]


def m_str_as_bytes(E, path, a): return a[0]
def m_str_len(E, path, a): return IntV(E.PW, a[0].meta)


# ---------------------------------------------------------------- environment: atomics, cpu features
def m_atomic_load(E, path, a): return E.hooks['atomic_load'](a)
def m_atomic_store(E, path, a): E.hooks['atomic_store'](a); return UNIT
def m_feature(E, path, a): return E.hooks['feature'](path)
def m_atomic_rmw(E, path, a): return E.hooks['atomic_rmw'](path, a)


MODELS = [
    (r'as Try>::branch$', m_try_branch),
    (r'as FromResidual.*>::from_residual$', m_from_residual),
    (r'(^|::)slice::<impl \[.*\]>::as_ptr$|(^|::)slice::<impl \[.*\]>::as_mut_ptr$', m_as_ptr),
    (r'(^|::)slice::<impl \[.*\]>::len$', m_len),
    (r'(^|::)slice::<impl \[.*\]>::is_empty$', m_is_empty),
    (r"^<&(mut )?iter::Bytes.* as AsRef.*>::as_ref$", m_asref_fwd),
    (r'(^|::)slice::<impl \[.*\]>::get$|(^|::)slice::<impl \[.*\]>::get_mut$', m_get),
    (r'(^|::)slice::<impl \[.*\]>::get_unchecked(_mut)?$', m_get_unchecked),
    (r'as Index(Mut)?<.*>>::index(_mut)?$', m_index),
    (r'(^|::)slice::<impl \[.*\]>::split_at$', m_split_at),
    (r'(^|::)slice::<impl \[.*\]>::split_last(_mut)?$', m_split_last), (r'(^|::)slice::<impl \[.*\]>::split_first(_mut)?$', m_split_first),
    (r'(^|::)slice::<impl \[.*\]>::starts_with$', m_starts_with), (r'(^|::)slice::<impl \[.*\]>::contains$', m_contains),
    (r'^<\[u8\] as PartialEq>::eq$|^<&\[u8\] as PartialEq.*>::eq$', m_slice_eq),
    (r'^<(u|i)(8|16|32|64|128|size) as (\w+::)*(From|Into)<(u|i|b)\w+>>::(from|into)$', m_int_from),
    (r'(^|::)slice::<impl \[.*\]>::first$', m_first),
    (r'(^|::)slice::<impl \[.*\]>::last$', m_last),
    (r'as TryInto<.*>>::try_into$|as TryFrom<.*>>::try_from$', m_try_into),
    (r'(^|::)Result::<.*>::ok$|(^|::)Result::ok$', m_result_ok),
    (r'(^|::)Option::<.*>::is_some$|(^|::)Option::is_some$', m_opt_is_some),
    (r'(^|::)Option::<.*>::is_none$|(^|::)Option::is_none$', m_opt_is_none),
    (r'(^|::)Result::<.*>::is_ok$|(^|::)Result::is_ok$', m_res_is_ok),
    (r'(^|::)Result::<.*>::is_err$|(^|::)Result::is_err$', m_res_is_err),
    (r'(^|::)(Option|Result)(::<.*>)?::(unwrap|expect)$', m_unwrap),
    (r'(^|::)(Option|Result)(::<.*>)?::unwrap_or$', m_unwrap_or),
    (r'(^|::)Option(::<.*>)?::get_or_insert$', m_get_or_insert), (r'(^|::)Option(::<.*>)?::insert$', m_opt_insert),
    (r'(^|::)Option(::<.*>)?::take$', m_opt_take), (r'(^|::)Option(::<.*>)?::replace$', m_opt_replace),
    (r'(^|::)(Option|Result)(::<.*>)?::as_(ref|mut)$', m_opt_as_ref),
    (r'(^|::)Option(::<.*>)?::(copied|cloned)$', m_opt_copied),
    (r'(^|::)(Option|Result)(::<.*>)?::map$', m_opt_map), (r'(^|::)(Option|Result)(::<.*>)?::and_then$', m_opt_and_then),
    (r'(^|::)(Option|Result)(::<.*>)?::unwrap_or_else$', m_unwrap_or_else), (r'(^|::)(Option|Result)(::<.*>)?::map_or$', m_map_or),
    (r'(^|::)(Option|Result)(::<.*>)?::or$', m_opt_or), (r'(^|::)Option(::<.*>)?::ok_or$', m_ok_or),
    (r'(^|::)(Option|Result)(::<.*>)?::unwrap_unchecked$', m_unwrap),
    (r'from_ne_bytes$|from_le_bytes$', m_from_ne_bytes),
    (r'from_be_bytes$', m_from_be_bytes),
    (r'to_ne_bytes$|to_le_bytes$', m_to_ne_bytes),
    (r'ptr::(const|mut)_ptr::<impl \*(const|mut) .+?>::wrapping_add$', m_ptr_wrapping(1)),
    (r'ptr::(const|mut)_ptr::<impl \*(const|mut) .+?>::wrapping_sub$', m_ptr_wrapping(-1)),
    (r'::wrapping_sub$', m_wrapping('Sub')), (r'::wrapping_add$', m_wrapping('Add')), (r'::wrapping_mul$', m_wrapping('Mul')),
    (r'::checked_sub$', m_checked('Sub')), (r'::checked_add$', m_checked('Add')), (r'::checked_mul$', m_checked('Mul')),
    (r'::overflowing_sub$', m_overflowing('Sub')), (r'::overflowing_add$', m_overflowing('Add')), (r'::overflowing_mul$', m_overflowing('Mul')),
    (r'::saturating_sub$', m_saturating('Sub')), (r'::saturating_add$', m_saturating('Add')),
    (r'(^|::)cmp::min(::<.*>)?$|as Ord>::min$', m_minmax('min')), (r'(^|::)cmp::max(::<.*>)?$|as Ord>::max$', m_minmax('max')),
    (r'ptr::(const|mut)_ptr::<impl \*(const|mut) .+?>::add$', m_ptr_add),
    (r'ptr::(const|mut)_ptr::<impl \*(const|mut) .+?>::sub$', m_ptr_sub),
    (r'ptr::(const|mut)_ptr::<impl \*(const|mut) .+?>::offset$', m_ptr_offset),
    (r'ptr::(const|mut)_ptr::<impl \*(const|mut) .+?>::offset_from$', m_offset_from),
    (r'ptr::(const|mut)_ptr::<impl \*(const|mut) .+?>::addr$', m_ptr_addr),
    (r'ptr::(const|mut)_ptr::<impl \*(const|mut) .+?>::read(_unaligned)?$|(^|::)ptr::read(_unaligned)?$', m_ptr_read),
    (r'ptr::mut_ptr::<impl \*mut \w+>::write(_unaligned)?$|(^|::)ptr::write(_unaligned)?$', m_ptr_write),
    (r'ptr::(const|mut)_ptr::<impl \*(const|mut) .+?>::cast$', m_identity),
    (r'slice::from_raw_parts(_mut)?$|ptr::slice_from_raw_parts(_mut)?$', m_from_raw_parts),
    (r'ptr::(const|mut)_ptr::<impl \*(const|mut) \[.+?\]>::len$', m_len),
    (r'ptr::(const|mut)_ptr::<impl \*(const|mut) \[.+?\]>::as_(mut_)?ptr$', m_as_ptr),
    (r'ptr::(const|mut)_ptr::<impl \*(const|mut) .+?>::(cast_mut|cast_const|as_ptr|as_mut_ptr)$', m_identity),
    (r'ptr::(const|mut)_ptr::<impl \*(const|mut) .+?>::is_null$', m_false),
    (r'(^|::)NonNull(::<.*>)?::(new_unchecked|as_ptr|cast|from)$', m_identity),
    (r'mem::take$', m_take), (r'mem::replace$', m_replace), (r'mem::swap$', m_swap),
    (r'mem::size_of', m_size_of),
    (r'(^|::)slice::<impl \[.*\]>::iter(_mut)?$', m_iter),
    (r'as Iterator>::enumerate$', m_enumerate),
    (r'as Iterator>::copied$|as Iterator>::cloned$', m_copied),
    (r'as Iterator>::rev$', m_rev),
    (r'as IntoIterator>::into_iter$', m_into_iter),
    (r'(^|::)slice::<impl \[.*\]>::chunks_exact$', m_chunks_exact),
    (r'(^|::)slice::<impl \[.*\]>::chunks$', m_chunks),
    (r'(^|::)slice::<impl \[.*\]>::copy_from_slice$', m_copy_from_slice),
    (r'^<(.*::)?(slice::Iter|slice::IterMut|slice::ChunksExact|slice::Chunks|ChunksExact|Chunks|Enumerate|Copied|Cloned|Rev|Range|array::IntoIter|IntoIter|Chain|Take|Skip|Map|Filter|TakeWhile|SkipWhile|option::Iter)<.*> as Iterator>::next$', m_it_next),
    (r'as DoubleEndedIterator>::next_back$', m_it_next_back),
    (r'as ExactSizeIterator>::len$', m_it_len),
    (r'as Iterator>::chain', m_chain), (r'as Iterator>::take$|as Iterator>::take::', m_it_take), (r'as Iterator>::skip$', m_it_skip),
    (r'as Iterator>::map(::<.*>)?$', m_map_it), (r'as Iterator>::filter(::<.*>)?$', m_filter_it),
    (r'as Iterator>::take_while', m_take_while), (r'as Iterator>::skip_while', m_skip_while),
    (r'as Iterator>::min$', m_minmax_it('min')), (r'as Iterator>::max$', m_minmax_it('max')),
    (r'as Iterator>::count$', m_count), (r'as Iterator>::last$', m_last), (r'as Iterator>::nth$', m_nth),
    (r'as Iterator>::find(::<.*>)?$', m_find), (r'as Iterator>::fold(::<.*>)?$', m_fold), (r'as Iterator>::sum(::<.*>)?$', m_sum),
    (r'(^|::)Option(::<.*>)?::(into_iter|iter)$', m_opt_into_iter),
    (r'MaybeUninit(::<.*>)?::as_mut_ptr$|MaybeUninit(::<.*>)?::as_ptr$', m_mu_as_ptr),
    (r'as Iterator>::rposition', m_rposition),
    (r'as Iterator>::position', m_position),
    (r'as Iterator>::any', m_any_all('any')), (r'as Iterator>::all', m_any_all('all')),
    (r'(^|::)MaybeUninit::<.*>::new$|(^|::)MaybeUninit::new$|MaybeUninit::<.*>::assume_init$|MaybeUninit::assume_init$', m_identity),
    (r'from_utf8_unchecked$', m_from_utf8_unchecked),
    (r'^<bool as Default>::default$', m_false),
    (r'^<Option<.*> as PartialEq>::eq$', m_opt_eq),
    (r'^<Option<.*> as PartialEq>::ne$', m_opt_ne),
    (r'RangeInclusive::<.*>::new$|RangeInclusive::new$', m_range_new),
    (r'Range(Inclusive)?::<.*>::contains|Range(Inclusive)?::contains', m_range_contains),
    (r'^panic$|panicking|panic_fmt|unreachable_display|panic_nounwind|(^|::)intrinsics::abort$', m_panic),
    (r'as Fn<.*>>::call$|as FnMut<.*>>::call_mut$|as FnOnce<.*>>::call_once$', m_fn_call),
    (r'(^|::)from_utf8$', m_from_utf8),
    (r'(^|::)str::<impl str>::as_bytes$', m_str_as_bytes),
    (r'(^|::)str::<impl str>::as_ptr$', m_as_ptr),
    (r'(^|::)str::<impl str>::len$', m_str_len),
    (r'fmt::Arguments|Arguments::<.*>::new', m_unit),
    (r'(^|::)hint::black_box', m_identity),
    (r'(^|::)hint::unreachable_unchecked$', lambda E, p, a: (_ for _ in ()).throw(Panic('unreachable', 'unreachable_unchecked reached (UB)'))),
]
for _n, _f in U8_PREDS.items():
    MODELS.append((r'<impl u8>::%s$' % _n, byte_pred(_n, _f)))
for _n, _f in U8_MAPS.items():
    MODELS.append((r'<impl u8>::%s$' % _n, byte_map(_n, _f)))


# ---------------------------------------------------------------- x86 SIMD intrinsics on bit-vectors
def zof(v):
    if v.conc(): return z3.BitVecVal(v.v, v.w)
    return sym.zexpr(v.v)


def vec(w, zfun, args, name):
    """result node for a vector op: args are IntV; symbolic if any arg symbolic"""
    if all(a.conc() for a in args):
        r = z3.simplify(zfun(*[z3.BitVecVal(a.v, a.w) for a in args]))
        return IntV(w, r.as_long())
    return IntV(w, sym.raw(w, zfun, [a.v if not a.conc() else z3.BitVecVal(a.v, a.w) for a in args], name))


def zlanes(z, n): return [z3.Extract(8 * i + 7, 8 * i, z) for i in range(n)]
def zfrom(ls): return z3.Concat(*reversed(ls)) if len(ls) > 1 else ls[0]
def vw(path): return 16 if ('_mm_' in path) else 32


def m_set1(E, path, a):
    n = vw(path); b = a[0]
    if b.conc(): return IntV(8 * n, sum((b.v & 255) << (8 * i) for i in range(n)))
    return IntV(8 * n, sym.concat_bytes([b.v] * n))


def m_lddqu(E, path, a):
    n = vw(path)
    bs = read_elems(E, a[0], n, f'{n}-byte vector load')
    h = E.hooks.get('block_load')
    if h: h(a[0], n)
    if all(b.conc() for b in bs): return IntV(8 * n, sum(b.v << (8 * i) for i, b in enumerate(bs)))
    return IntV(8 * n, sym.concat_bytes([b.v for b in bs]))


def m_load_aligned(E, path, a):
    if a[0].alloc == 'buf': raise Panic('align', 'aligned vector load from the caller buffer (alignment is not guaranteed)')
    return m_lddqu(E, path, a)


def lanewise2(fn):
    def f(E, path, a):
        n = vw(path) if '_mm' in path else 16
        return vec(8 * n, lambda x, y: zfrom([fn(p, q) for p, q in zip(zlanes(x, n), zlanes(y, n))]), a, path)
    return f


def z_b(c): return z3.If(c, z3.BitVecVal(255, 8), z3.BitVecVal(0, 8))


def m_andnot(E, path, a): return vec(a[0].w, lambda x, y: ~x & y, a, path)
def m_or(E, path, a): return vec(a[0].w, lambda x, y: x | y, a, path)
def m_and(E, path, a): return vec(a[0].w, lambda x, y: x & y, a, path)
def m_xor(E, path, a): return vec(a[0].w, lambda x, y: x ^ y, a, path)


def m_movemask(E, path, a):
    n = vw(path)

    def zf(x):
        bits = [z3.Extract(8 * i + 7, 8 * i + 7, x) for i in range(n)]
        r = z3.Concat(*reversed(bits))
        return z3.ZeroExt(32 - n, r) if n < 32 else r
    r = vec(32, zf, a, path)
    r.s = True
    return r


def m_trailing(kind):
    def f(E, path, a):
        v = a[0]; w = v.w
        if v.conc():
            k = 0; bit = 1 if kind == 'ones' else 0
            while k < w and ((v.v >> k) & 1) == bit: k += 1
            return IntV(32, k)

        def zf(z):
            r = z3.BitVecVal(w, 32)
            for k in reversed(range(w)):
                r = z3.If(z3.Extract(k, k, z) == (0 if kind == 'ones' else 1), z3.BitVecVal(k, 32), r)
            return r
        return IntV(32, sym.raw(32, zf, [v.v], 'trailing_' + kind))
    return f


def m_leading_zeros(E, path, a):
    v = a[0]; w = v.w
    if v.conc():
        return IntV(32, w - v.v.bit_length())

    def zf(z):
        r = z3.BitVecVal(w, 32)
        for k in range(w):
            r = z3.If(z3.Extract(k, k, z) == 1, z3.BitVecVal(w - 1 - k, 32), r)
        return r
    return IntV(32, sym.raw(32, zf, [v.v], 'leading_zeros'))


MODELS[:0] = [
    (r'_mm(256)?_set1_epi8$', m_set1), (r'_mm(256)?_lddqu_si(128|256)$|_mm(256)?_loadu_si(128|256)$', m_lddqu),
    (r'_mm(256)?_load_si(128|256)$', m_load_aligned),
    (r'_mm(256)?_max_epu8$', lanewise2(lambda p, q: z3.If(z3.UGE(p, q), p, q))),
    (r'_mm(256)?_min_epu8$', lanewise2(lambda p, q: z3.If(z3.ULE(p, q), p, q))),
    (r'_mm(256)?_cmpeq_epi8$', lanewise2(lambda p, q: z_b(p == q))),
    (r'_mm(256)?_cmpgt_epi8$', lanewise2(lambda p, q: z_b(p > q))),
    (r'_mm(256)?_andnot_si(128|256)$', m_andnot), (r'_mm(256)?_or_si(128|256)$', m_or),
    (r'_mm(256)?_and_si(128|256)$', m_and), (r'_mm(256)?_xor_si(128|256)$', m_xor),
    (r'_mm(256)?_movemask_epi8$', m_movemask),
    (r'::trailing_ones$', m_trailing('ones')), (r'::trailing_zeros$', m_trailing('zeros')),
    (r'::leading_zeros$', m_leading_zeros),
    (r'Atomic(U8)?(::<u8>)?::load$', m_atomic_load), (r'Atomic(U8)?(::<u8>)?::store$', m_atomic_store),
    (r'Atomic(U8)?(::<u8>)?::(compare_exchange(_weak)?|swap|fetch_\w+)$', m_atomic_rmw),
    (r'__is_feature_detected::|is_x86_feature_detected', m_feature),
]


# ---------------------------------------------------------------- aarch64 NEON (uint8x16_t = 128-bit vector, lane 0 = low byte)
def m_vld1q(E, path, a):
    bs = read_elems(E, a[0], 16, '16-byte vector load')
    h = E.hooks.get('block_load')
    if h: h(a[0], 16)
    if all(b.conc() for b in bs): return IntV(128, sum(b.v << (8 * i) for i, b in enumerate(bs)))
    return IntV(128, sym.concat_bytes([b.v for b in bs]))


def m_vdupq(E, path, a):
    b = a[0]
    if b.conc(): return IntV(128, sum((b.v & 255) << (8 * i) for i in range(16)))
    return IntV(128, sym.concat_bytes([b.v] * 16))


def m_vshr(E, path, a):
    n = int(re.search(r'vshrq_n_u8::<(\d+)>', path).group(1))
    return vec(128, lambda x: zfrom([z3.LShR(p, n) for p in zlanes(x, 16)]), a, path)


def m_vqtbl1(E, path, a):
    def zf(t, ix):
        tl = zlanes(t, 16); out = []
        for i in zlanes(ix, 16):
            r = z3.BitVecVal(0, 8)
            for k in reversed(range(16)): r = z3.If(i == k, tl[k], r)
            out.append(r)
        return zfrom(out)
    return vec(128, zf, a, path)


def m_vgetq_lane_u64(E, path, a):
    n = int(re.search(r'vgetq_lane_u64::<(\d+)>', path).group(1))
    return vec(64, lambda x: z3.Extract(64 * n + 63, 64 * n, x), a, path)


MODELS[:0] = [
    (r'aarch64::vld1q_u8$', m_vld1q), (r'aarch64::vdupq_n_u8$', m_vdupq),
    (r'aarch64::vandq_u8$', m_and), (r'aarch64::vorrq_u8$', m_or), (r'aarch64::veorq_u8$', m_xor),
    (r'aarch64::vbicq_u8$', lambda E, p, a: vec(128, lambda x, y: x & ~y, a, p)),
    (r'aarch64::vmvnq_u8$', lambda E, p, a: vec(128, lambda x: ~x, a, p)),
    (r'aarch64::vceqq_u8$', lanewise2(lambda p, q: z_b(p == q))),
    (r'aarch64::vcleq_u8$', lanewise2(lambda p, q: z_b(z3.ULE(p, q)))),
    (r'aarch64::vcltq_u8$', lanewise2(lambda p, q: z_b(z3.ULT(p, q)))),
    (r'aarch64::vcgeq_u8$', lanewise2(lambda p, q: z_b(z3.UGE(p, q)))),
    (r'aarch64::vcgtq_u8$', lanewise2(lambda p, q: z_b(z3.UGT(p, q)))),
    (r'aarch64::vshrq_n_u8', m_vshr), (r'aarch64::vqtbl1q_u8$', m_vqtbl1),
    (r'aarch64::vreinterpretq_u64_u8$', m_identity), (r'aarch64::vgetq_lane_u64', m_vgetq_lane_u64),
]

# ---------------------------------------------------------------- allocator family (C19): reaching any of these is a failure
def m_alloc(E, path, a):
    raise Panic('alloc', 'heap allocation: call to ' + path)


def m_from_utf8_lossy(E, path, a):
    """String::from_utf8_lossy borrows when the bytes are well-formed UTF-8 and allocates otherwise"""
    r = m_from_utf8(E, path, a)
    if r.var == 'Ok': return EnumV('Cow', 'Borrowed', 0, [a[0]])
    raise Panic('alloc', 'heap allocation: String::from_utf8_lossy on malformed UTF-8 builds an owned String')


def m_env_var(E, path, a):
    """std::env::var / var_os: the process environment is an input the engine leaves nondeterministic; if the variable is set the result
    is an owned String / OsString, i.e. a heap allocation inside the call (C19). The variable's name goes into the failure text so
    that the native replay can set it."""
    name = '?'
    try:
        r = a[0]; c, k = nav(r)
        name = bytes(x.v for x in c[k:k + (r.meta or 0)]).decode('ascii', 'replace')
    except Exception: pass
    raise Panic('alloc', f'heap allocation: {path} returns an owned string when the variable is set [env {name}]')


MODELS.insert(0, (r'(^|::)env::var(_os)?(::<.*>)?$|^var_os(::<.*>)?$', m_env_var))
MODELS.insert(0, (r'from_utf8_lossy$', m_from_utf8_lossy))
ALLOC_PATTERN = r"alloc::|__rust_alloc|(^|::|<)vec::|(^|::|<)Vec(::|<)|(^|::|<)String(::|<)|(^|::)string::|(^|::)boxed::|(^|::|<)Box(::|<)|collections::|to_vec$|to_owned$|to_string$|into_boxed|fmt::format$|::format$|(^|::)Rc(::|<)|(^|::)Arc(::|<)"
MODELS.insert(1, (ALLOC_PATTERN, m_alloc))

MODEL_NAMES = sorted(set(p for p, _ in MODELS))
