"""Regenerate the encodings from /repo's current working tree: MIR dumps per build variant (cached by
content hash of the sources), the reference model's MIR, and the native replay binaries."""
import hashlib, os, shutil, subprocess, sys, time, tempfile, json

REPO = os.environ.get('VERIF_REPO', '/repo')
VERIF = os.path.dirname(os.path.dirname(os.path.abspath(__file__)))
CACHE = os.path.join(VERIF, '.cache')
SCRATCH_ROOT = os.environ.get('VERIF_SCRATCH', '/var/tmp')

VARIANTS = {
    # id: (env, cargo args, rustc args, target)
    'swar-rel': ({'CARGO_CFG_HTTPARSE_DISABLE_SIMD': '1'}, [], ['-C', 'debug-assertions=off', '-C', 'overflow-checks=on'], None),
    'swar-dbg': ({'CARGO_CFG_HTTPARSE_DISABLE_SIMD': '1'}, [], ['-C', 'debug-assertions=on', '-C', 'overflow-checks=on'], None),
    'x86-rt': ({}, [], ['-C', 'debug-assertions=off', '-C', 'overflow-checks=on'], None),
    'x86-rt-dbg': ({}, [], ['-C', 'debug-assertions=on', '-C', 'overflow-checks=on'], None),
    'x86-sse42-ct': ({'RUSTFLAGS': '-C target-feature=+sse4.2'}, [], ['-C', 'debug-assertions=off', '-C', 'overflow-checks=on'], None),
    'x86-avx2-ct': ({'RUSTFLAGS': '-C target-feature=+avx2'}, [], ['-C', 'debug-assertions=off', '-C', 'overflow-checks=on'], None),
    'nostd': ({}, ['--no-default-features'], ['-C', 'debug-assertions=off', '-C', 'overflow-checks=on'], None),
    'a64-neon': ({'RUSTFLAGS': '--cfg httparse_simd --cfg httparse_simd_neon_intrinsics'},
                 ['--no-default-features', '-Zbuild-std=core', '--target', 'aarch64-unknown-linux-gnu'],
                 ['-C', 'debug-assertions=off', '-C', 'overflow-checks=on'], 'aarch64-unknown-linux-gnu'),
    'i686-swar': ({}, ['--no-default-features', '-Zbuild-std=core', '--target', 'i686-unknown-linux-gnu'],
                  ['-C', 'debug-assertions=off', '-C', 'overflow-checks=on'], 'i686-unknown-linux-gnu'),
}


def tree_hash(root, extra=()):
    h = hashlib.sha256()
    files = []
    for d, _, fs in os.walk(os.path.join(root, 'src')):
        for f in fs: files.append(os.path.join(d, f))
    for f in ('build.rs', 'Cargo.toml') + tuple(extra):
        p = os.path.join(root, f)
        if os.path.exists(p): files.append(p)
    for p in sorted(files):
        h.update(p.encode()); h.update(b'\0'); h.update(open(p, 'rb').read()); h.update(b'\0')
    return h.hexdigest()[:20]


class Scratch:
    def __init__(self):
        self.dir = tempfile.mkdtemp(prefix='httparse-verif.', dir=SCRATCH_ROOT)

    def __enter__(self): return self.dir

    def __exit__(self, *a):
        shutil.rmtree(self.dir, ignore_errors=True)


def base_env():
    env = dict(os.environ)
    env['CARGO_NET_OFFLINE'] = 'true'
    env.pop('RUSTFLAGS', None)
    return env


def dump_mir(crate_dir, variant_id, spec, out_path):
    envx, cargs, rargs, target = spec
    with Scratch() as sd:
        env = base_env(); env.update(envx)
        cmd = ['cargo', '+nightly', 'rustc', '--offline', '--lib', '--target-dir', os.path.join(sd, 't')] + cargs + \
              ['--', '-Zunpretty=mir'] + rargs
        p = subprocess.run(cmd, cwd=crate_dir, env=env, stdout=subprocess.PIPE, stderr=subprocess.PIPE)
        if p.returncode != 0 or not p.stdout:
            raise RuntimeError(f'MIR dump failed for variant {variant_id}:\n' + p.stderr.decode()[-3000:])
        os.makedirs(os.path.dirname(out_path), exist_ok=True)
        tmp = out_path + '.tmp%d' % os.getpid()
        open(tmp, 'wb').write(p.stdout)
        os.replace(tmp, out_path)


def get_mir(variant_id):
    """returns path to MIR text for the variant of /repo's current tree (regenerated unless cached for this exact source hash)"""
    h = tree_hash(REPO)
    d = os.path.join(CACHE, h); os.makedirs(d, exist_ok=True)
    out = os.path.join(d, variant_id + '.mir')
    if not os.path.exists(out):
        dump_mir(REPO, variant_id, VARIANTS[variant_id], out)
    prune_cache(keep=h)
    return out


def get_ref_mir():
    rd = os.path.join(VERIF, 'refmodel')
    h = tree_hash(rd)
    d = os.path.join(CACHE, 'ref-' + h); os.makedirs(d, exist_ok=True)
    out = os.path.join(d, 'ref.mir')
    if not os.path.exists(out):
        dump_mir(rd, 'ref', ({}, [], ['-C', 'debug-assertions=off', '-C', 'overflow-checks=off'], None), out)
    return out


def prune_cache(keep):
    try:
        for e in os.listdir(CACHE):
            p = os.path.join(CACHE, e)
            if e.startswith(('ref-', 'replay', 'kani')) or e == keep: continue
            if os.path.isdir(p) and time.time() - os.path.getmtime(p) > 6 * 3600:
                shutil.rmtree(p, ignore_errors=True)
    except OSError:
        pass


# ---------------------------------------------------------------- native replay binary
REPLAY_PROFILES = {
    # id: (env, cargo args)
    'dev': ({}, []),
    'release': ({}, ['--release']),
    'dev-swar': ({'CARGO_CFG_HTTPARSE_DISABLE_SIMD': '1'}, []),
    'release-swar': ({'CARGO_CFG_HTTPARSE_DISABLE_SIMD': '1'}, ['--release']),
    # release control flow (debug assertions off) with arithmetic overflow checks compiled in: turns a silent wrap into a panic
    'release-swar-ovf': ({'CARGO_CFG_HTTPARSE_DISABLE_SIMD': '1', 'RUSTFLAGS': '-C overflow-checks=on'}, ['--release']),
    'dev-sse42': ({'RUSTFLAGS': '-C target-feature=+sse4.2'}, []),
    'release-sse42': ({'RUSTFLAGS': '-C target-feature=+sse4.2'}, ['--release']),
    'dev-avx2': ({'RUSTFLAGS': '-C target-feature=+avx2'}, []),
    'release-avx2': ({'RUSTFLAGS': '-C target-feature=+avx2'}, ['--release']),
}


def get_replay_bin(profile='dev'):
    """build /verif/replay against /repo's current tree; binary cached by (repo hash, replay hash, profile)"""
    rd = os.path.join(VERIF, 'replay')
    h = tree_hash(REPO) + '-' + tree_hash(rd) + '-' + tree_hash(os.path.join(VERIF, 'refmodel'))
    d = os.path.join(CACHE, 'replay-' + h); os.makedirs(d, exist_ok=True)
    out = os.path.join(d, 'replay-' + profile)
    if os.path.exists(out): return out
    envx, cargs = REPLAY_PROFILES[profile]
    with Scratch() as sd:
        env = base_env(); env.update(envx)
        # path dependency on /repo is fixed in replay/Cargo.toml; allow override for scratch trees
        work = os.path.join(sd, 'replay'); shutil.copytree(rd, work, ignore=shutil.ignore_patterns('target'))
        ct = open(os.path.join(work, 'Cargo.toml')).read().replace('/repo', REPO).replace('../refmodel', os.path.join(VERIF, 'refmodel'))
        open(os.path.join(work, 'Cargo.toml'), 'w').write(ct)
        lock = os.path.join(REPO, 'Cargo.lock')
        cmd = ['cargo', 'build', '--offline', '--target-dir', os.path.join(sd, 't')] + cargs
        p = subprocess.run(cmd, cwd=work, env=env, stdout=subprocess.PIPE, stderr=subprocess.PIPE)
        if p.returncode != 0:
            raise RuntimeError('replay build failed:\n' + p.stderr.decode()[-3000:])
        binp = os.path.join(sd, 't', 'release' if '--release' in cargs else 'debug', 'replay')
        os.makedirs(d, exist_ok=True)
        tmp = out + '.tmp%d' % os.getpid()
        shutil.copy2(binp, tmp); os.replace(tmp, out)
    # drop replay binaries of trees not used for a while (never a directory another run may be filling right now)
    try:
        for e in os.listdir(CACHE):
            pth = os.path.join(CACHE, e)
            if e.startswith('replay-') and e != 'replay-' + h and time.time() - os.path.getmtime(pth) > 3 * 3600:
                shutil.rmtree(pth, ignore_errors=True)
    except OSError:
        pass
    return out


if __name__ == '__main__':
    t = time.time()
    for v in sys.argv[1:] or ['swar-rel']:
        print(v, get_mir(v) if v != 'ref' else get_ref_mir(), round(time.time() - t, 1))
