"""Native side of the replay gate: run the real parser (replay binary built from /repo's working tree) on concrete
inputs, compare with what engine M predicted, and re-evaluate the property on the native observation."""
import json, os, subprocess
from . import build
from .props.common import py_head_end, TCHAR, URICH, REASONCH, VALUECH, WS, entry_name


def profile_for(variant, release=False):
    base = 'release' if release else 'dev'
    if variant.startswith(('swar', 'nostd', 'i686', 'a64')): return base + '-swar'     # a64/i686 cannot run here: nearest native build
    if 'sse42' in variant: return base + '-sse42'
    if 'avx2' in variant: return base + '-avx2'
    return base


def run_native(items, profile='dev', env=None):
    """items: list of (entry, flags, cap, bufhex) -> list of dict {'impl':..., 'ref':...}; env: extra environment variables of the
    replay process (the environment is an input of std builds: an engine counterexample may name a variable that has to be set)"""
    if not items: return []
    binp = build.get_replay_bin(profile)
    inp = ''.join(f'{e} {f} {c} {h}\n' for e, f, c, h in items)
    penv = None
    if env: penv = dict(os.environ); penv.update(env)
    p = subprocess.run([binp], input=inp.encode(), stdout=subprocess.PIPE, stderr=subprocess.PIPE, timeout=600, env=penv)
    lines = p.stdout.decode().strip().split('\n')
    out = []
    for ln in lines:
        try: out.append(json.loads(ln))
        except Exception: out.append({'impl': {'status': 'CRASH'}, 'ref': {}})
    while len(out) < len(items): out.append({'impl': {'status': 'CRASH', 'detail': p.stderr.decode()[-300:]}, 'ref': {}})
    return out


def norm_impl(d, kind):
    """normalise a native / predicted implementation observation for comparison"""
    if d is None: return None
    o = {'status': d.get('status'), 'n': d.get('n', 0) if d.get('status') == 'C' else 0}
    if kind == 'chunk':
        if d.get('status') == 'C': o['size'] = d.get('size')
        return o
    for k in ('method', 'path', 'version', 'code', 'reason'):
        if k in d:
            v = d[k]
            if isinstance(v, list) and v[1] == 0: v = ['empty']   # zero-length slices may live anywhere
            o[k] = v
    hs = []
    for h in d.get('headers', []):
        if isinstance(h, str): hs.append(h); continue
        name, val = h[0], h[1]
        if val[1] == 0: val = ['empty']
        hs.append([name, val])
    if kind == 'headers' and d.get('status') != 'C': hs = []
    o['headers'] = hs
    return o


def pred_matches(pred, native_impl, kind):
    if pred is None: return True
    if pred.get('status') == 'PANIC':
        return None     # decided by the caller (panics reproduce; UB may not)
    a, b = norm_impl(pred, kind), norm_impl(native_impl, kind)
    return a == b


def norm_ref(d, kind):
    o = {'status': d.get('status'), 'n': d.get('n', 0) if d.get('status') == 'C' else 0}
    if kind == 'chunk':
        if d.get('status') == 'C': o['size'] = d.get('size')
        return o
    for k in ('method', 'path', 'version', 'code', 'reason'):
        if k in d:
            v = d[k]
            if isinstance(v, list) and v[1] == 0: v = ['empty']
            o[k] = v
    hs = []
    if d.get('status') == 'C':
        for h in d.get('headers', []):
            hs.append([[h[0], h[1]], [h[2], h[3]] if h[3] else ['empty']])
    o['headers'] = hs
    return o


def native_ref_mismatch(nat, kind, only_err=False):
    """does the native implementation result differ from the native reference result?"""
    i = norm_impl(nat['impl'], kind); r = norm_ref(nat['ref'], kind)
    if i['status'] in ('PANIC', 'CRASH'): return [f"implementation {i['status']}"]
    out = []
    if only_err:
        if (i['status'].startswith('E') or r['status'].startswith('E')) and i['status'] != r['status']:
            out.append(f"status {i['status']} vs reference {r['status']}")
        return out
    if i['status'] != r['status']: return [f"status {i['status']} vs reference {r['status']}"]
    if i['n'] != r['n']: out.append(f"n {i['n']} vs {r['n']}")
    for k in ('method', 'path', 'version', 'code', 'reason', 'size'):
        if k in r and i.get(k) != r.get(k):
            # reason "" from a static vs empty slice in buffer are both 'empty'
            out.append(f'{k}: {i.get(k)} vs reference {r.get(k)}')
    if i['status'] == 'C' and kind != 'chunk':
        ih = [h for h in i.get('headers', [])]
        if ih != r['headers']: out.append(f"headers {ih} vs reference {r['headers']}")
    return out


def in_mask(b, m): return bool((m >> b) & 1)


def native_eval(group, kind, api, flags, cap, data, nat):
    """re-evaluate one assertion group on the native observation; returns list of violated statements"""
    imp = nat['impl']; st = imp.get('status'); out = []
    if st in ('PANIC', 'CRASH'):
        return ['implementation ' + st] if group in ('safety', 'ref', 'ref_err') else []
    if group in ('ref', 'ref_err'): return native_ref_mismatch(nat, kind, only_err=(group == 'ref_err'))
    if group == 'safety': return []
    if group == 'alloc':
        return [f"{imp.get('allocs')} heap allocation(s) during the parse call"] if imp.get('allocs') else []
    n = imp.get('n', 0)

    def sl(t):
        if t is None or t[0] < 0: return None
        return data[t[0]:t[0] + t[1]]
    if group == 'framing':
        if kind == 'chunk':
            if st == 'C':
                idx = data.find(b'\r\n')
                if idx < 0 or n != idx + 2: out.append(f'chunk n={n} but first CRLF ends at {idx + 2 if idx >= 0 else None}')
            return out
        if flags & 16:
            r = nat['ref']
            if st == 'C' and r.get('status') == 'C' and r.get('n') != n: out.append(f"n={n} vs reference {r.get('n')}")
            if st == 'P' and r.get('status') == 'C': out.append('Partial although the reference finds the head complete')
            return out
        he = py_head_end(data, kind)
        if st == 'C' and (he != n or n > len(data)): out.append(f'Complete(n={n}) but first empty line ends at {he}')
        if st == 'P' and he is not None: out.append(f'Partial although an empty line ends at {he}')
        return out
    fields = []
    if kind == 'req': fields = [('method', imp.get('method')), ('path', imp.get('path'))]
    if kind == 'resp': fields = [('reason', imp.get('reason'))]
    hdrs = [h for h in imp.get('headers', []) if not isinstance(h, str)]
    if group == 'zerocopy':
        last = 0
        allf = [(k, v) for k, v in fields if v is not None]
        for i, h in enumerate(hdrs): allf += [(f'h{i}.name', h[0]), (f'h{i}.value', h[1])]
        for k, v in allf:
            if v[1] == 0: continue
            if v[0] < 0: out.append(f'{k} outside the buffer'); continue
            if st == 'C':
                if v[0] + v[1] > n: out.append(f'{k} past n')
                if v[0] < last: out.append(f'{k} out of order / overlapping')
                last = v[0] + v[1]
        return out
    if group == 'hygiene':
        if imp.get('utf8') is False: out.append('a &str field is not valid UTF-8')
        for i, h in enumerate(hdrs):
            if len(h) > 2 and h[2] is False: out.append(f'header {i} name not valid UTF-8')
        if st != 'C': return out
        if kind == 'req':
            m, p = sl(imp.get('method')), sl(imp.get('path'))
            if not m or not all(in_mask(b, TCHAR) for b in m): out.append('method not a non-empty tchar run')
            if not p or not all(in_mask(b, URICH) for b in p): out.append('path not a non-empty target-class run')
            if imp.get('version') not in (0, 1): out.append('version')
        if kind == 'resp':
            r = imp.get('reason')
            if r is None: out.append('reason missing')
            elif r[1] and (sl(r) is None or not all(in_mask(b, REASONCH) for b in sl(r))): out.append('reason outside class')
            if imp.get('version') not in (0, 1): out.append('version')
            if imp.get('code') is None or imp.get('code') > 999: out.append('code')
        fold = bool(flags & 2) and kind == 'resp' and api in ('cfg', 'cfg_uninit')
        for i, h in enumerate(hdrs):
            nm, v = sl(h[0]), sl(h[1])
            if not nm or not all(in_mask(b, TCHAR) for b in nm): out.append(f'header {i} name')
            if h[1][1] and v is not None:
                if v[0] in (9, 32) or v[-1] in (9, 32): out.append(f'header {i} value not trimmed')
                for j, b in enumerate(v):
                    if in_mask(b, VALUECH): continue
                    okf = fold and ((b == 10 and j + 1 < len(v) and v[j + 1] in (9, 32)) or
                                    (b == 13 and j + 2 < len(v) and v[j + 1] == 10 and v[j + 2] in (9, 32)))
                    if not okf: out.append(f'header {i} value byte {j} = 0x{b:02x}'); break
        head = data[:n]
        if 0 in head: out.append('NUL inside consumed head')
        for j, b in enumerate(head):
            if b == 13 and (j + 1 >= len(head) or head[j + 1] != 10): out.append('bare CR inside consumed head'); break
        return out
    if group == 'storage':
        hl = imp.get('hlen'); before = imp.get('hlen_before')
        un = api in ('uninit', 'cfg_uninit')
        if kind == 'headers': return out
        cells = imp.get('cells')
        if cells is not None and st == 'C':
            for i in range(hl or 0, len(cells)):
                if cells[i] != 'old': out.append(f'slot {i} beyond the count ({hl}) lost its previous content'); break
        if cells is not None and st != 'C':
            for i, c in enumerate(cells):
                if c != 'old' and (not isinstance(c, list) or c[0][0] < 0): out.append(f'slot {i} holds neither its previous content nor a header from this buffer'); break
        if st == 'C':
            if any(isinstance(h, str) for h in imp.get('headers', [])): out.append('exposed element is not from this buffer')
            r = nat['ref']
            if r.get('status') == 'C' and r.get('count') != hl: out.append(f"headers.len()={hl} vs {r.get('count')} accepted lines")
        else:
            if un and hl != 0: out.append('uninit entry point modified `headers`')
            if not un and hl != before: out.append(f'`headers` not restored: len {hl} of {before}')
        return out
    return out


# ------------------------------------------------------------------ relational properties (several native runs)
def _fields_equal(a, b, kind):
    return norm_impl(a, kind) == norm_impl(b, kind)


def rel_gate(v):
    """native confirmation for relational counterexamples. returns (status, details)"""
    from .props.common import entry_name as en
    rel = v['rel']; kind = v['kind']; data = bytes.fromhex(v['buf']); notes = []; confirmed = False; natives = {}
    profs = [profile_for(v['variant'], False), profile_for(v['variant'], True)]
    if rel == 'stream':
        k = v['split']; entry = en(kind, v['api'])
        for prof in profs:
            a, b = run_native([(entry, v['flags'], v['cap'], data[:k].hex()), (entry, v['flags'], v['cap'], data.hex())], prof)
            ia, ib = norm_impl(a['impl'], kind), norm_impl(b['impl'], kind); natives[prof] = [ia, ib]
            bad = None
            if ia['status'] == 'PANIC' or ib['status'] == 'PANIC': bad = 'panic'
            elif ia['status'] == 'C':
                if ia != ib: bad = f'prefix Complete {ia} but extended {ib}'
            elif ia['status'].startswith('E'):
                if ib['status'] != ia['status']: bad = f"prefix {ia['status']} but extended {ib['status']}"
            elif ia['status'] == 'P':
                for f in ('method', 'path', 'version', 'code', 'reason'):
                    if ia.get(f) is not None and ia.get(f) != ib.get(f): bad = f'{f} reported with Partial = {ia.get(f)} but later {ib.get(f)}'
            if bad: confirmed = True; notes.append(f'{prof}: {bad}')
    elif rel == 'same':
        # runs: list of dicts {entry, flags, cap, buf, profile(optional), shift(optional)}; all normalised observations must agree
        for prof in profs:
            obs = []
            for r in v['runs']:
                p = r.get('profile') or prof
                nat = run_native([(r['entry'], r['flags'], r['cap'], r['buf'])], p)[0]
                o = norm_impl(nat['impl'], r.get('kind', kind))
                if r.get('strip_reason_sp') and isinstance(o.get('reason'), list) and len(o['reason']) == 2:
                    pass
                obs.append(o)
            natives[prof] = obs
            cmpf = v.get('compare', 'all')
            base = obs[0]
            for o in obs[1:]:
                a, b = dict(base), dict(o)
                if cmpf == 'status':
                    a, b = {'status': a['status'], 'n': a['n']}, {'status': b['status'], 'n': b['n']}
                if cmpf == 'no_reason':
                    a.pop('reason', None); b.pop('reason', None)
                if cmpf == 'reason_strip':
                    # C15's one allowed difference: the response multi-space option strips exactly the leading SPs of the reason
                    ra, rb = a.pop('reason', None), b.pop('reason', None)
                    if isinstance(ra, list) and len(ra) == 2 and ra[0] >= 0:
                        raw = bytes.fromhex(v['runs'][0]['buf']); off, ln = ra
                        while ln > 0 and raw[off] == 0x20: off += 1; ln -= 1
                        want = [off, ln] if ln else ['empty']
                        if rb != want: a['reason'] = ra; b['reason'] = rb; a['reason_expected_after_strip'] = want
                    elif ra != rb: a['reason'] = ra; b['reason'] = rb
                if a != b: confirmed = True; notes.append(f'{prof}: {a} vs {b}'); break
    elif rel == 'hdr_vs_msg':
        pl = v['prefix_len']; entry = en(kind, v['api'])
        for prof in profs:
            a, b = run_native([(entry, v['flags'], v['cap'], data.hex()), ('headers', 0, v['cap'], data[pl:].hex())], prof)
            ia, ib = norm_impl(a['impl'], kind), norm_impl(b['impl'], 'headers'); natives[prof] = [ia, ib]
            bad = None
            if ia['status'] != ib['status']: bad = f"message {ia['status']} vs parse_headers {ib['status']}"
            elif ia['status'] == 'C':
                hb = [[[h[0][0] + pl, h[0][1]], ([h[1][0] + pl, h[1][1]] if len(h[1]) == 2 else h[1])] for h in ib['headers']]
                if ia['n'] != ib['n'] + pl or ia['headers'] != hb: bad = f"message n={ia['n']} {ia['headers']} vs parse_headers n={ib['n']}+{pl} {hb}"
            if bad: confirmed = True; notes.append(f'{prof}: {bad}')
    elif rel == 'caplaw':
        entry = en(kind, v['api']); c = v['cap']
        for prof in profs:
            a, b = run_native([(entry, v['flags'], c, data.hex()), (entry, v['flags'], 3, data.hex())], prof)
            ia, ib = norm_impl(a['impl'], kind), norm_impl(b['impl'], kind); natives[prof] = [ia, ib]
            bad = None
            if ia['status'] == 'E:TooManyHeaders':
                stored3 = sum(1 for h in b['impl'].get('headers', []) if not isinstance(h, str))
                if ib['status'] != 'E:TooManyHeaders' and stored3 <= c: bad = f"TooManyHeaders with capacity {c} but only {stored3} line(s) complete with capacity 3 ({ib['status']})"
            else:
                if (ia['status'], ia['n']) != (ib['status'], ib['n']): bad = f"capacity {c}: {ia['status']} n={ia['n']}; capacity 3: {ib['status']} n={ib['n']}"
                elif ia['status'] == 'C' and ia['headers'] != ib['headers']: bad = 'headers differ between capacities'
            if bad: confirmed = True; notes.append(f'{prof}: {bad}')
    elif rel == 'build':
        # re-run the failing no_std build once more, serially
        from .props import c19
        import subprocess, os
        r = v['combo']
        with build.Scratch() as sd:
            env = build.base_env()
            if r['target_feature'] != '-': env['RUSTFLAGS'] = '-C target-feature=' + r['target_feature']
            if r['disable_simd_compiletime']: env['CARGO_CFG_HTTPARSE_DISABLE_SIMD_COMPILETIME'] = '1'
            if r['disable_simd']: env['CARGO_CFG_HTTPARSE_DISABLE_SIMD'] = '1'
            p = subprocess.run(['cargo', 'check', '--offline', '--lib', '--no-default-features', '--target-dir', os.path.join(sd, 't')], cwd=build.REPO, env=env,
                               stdout=subprocess.PIPE, stderr=subprocess.PIPE)
            natives['build'] = p.returncode
            if p.returncode != 0: confirmed = True; notes.append('no_std build fails again: ' + p.stderr.decode()[-300:])
    elif rel == 'work_counter':
        return 'unconfirmable', {'native': {}, 'notes': ['work counters (cursor travel, per-byte reads) are observable on the MIR only; no native confirmation exists for a short input']}
    elif rel == 'work':
        from .props import c20
        fam, variant = v['family'].split('@')
        spec = [f for f in c20.families('thorough') if f[0] == fam][0]
        name, fl, kind2, mk = spec[:4]
        bits = 0
        for i, f in enumerate(fl):
            if f is True: bits |= 1 << i
        entry = ('timecap_' if len(spec) > 4 else 'time_') + en(kind2, 'cfg')
        sizes = (64, 1024)
        for prof in [profile_for(variant, True)]:
            items = []
            for k in sizes:
                pre, ns, suf = mk(k); items.append((entry, bits, 20, (pre + b'aa'[:ns] + suf).hex()))
            res = run_native(items, prof)
            t1, t2 = res[0]['impl'].get('ns', 0), res[1]['impl'].get('ns', 0)
            l1, l2 = len(items[0][3]) // 2, len(items[1][3]) // 2
            natives[prof] = {'ns': [t1, t2], 'len': [l1, l2]}
            if t1 > 0 and t2 / t1 > 3.0 * (l2 / l1):
                confirmed = True; notes.append(f'{prof}: {l2 / l1:.1f}x the input costs {t2 / t1:.1f}x the time ({t1} ns -> {t2} ns for 20 parses)')
            else: notes.append(f'{prof}: {l2 / l1:.1f}x the input costs {t2 / max(1, t1):.1f}x the time')
    elif rel == 'lattice':
        # the lattice verdict is a z3 validity query over the real cfg attributes; re-run it (deterministic) as the confirmation
        from . import lattice
        res = lattice.analyse(build.REPO)
        bad = [r for r in res['results'] if not r['holds']]
        if bad: confirmed = True; notes.append('; '.join(f"{r['obligation']}: {r['counterexample']}" for r in bad[:3]))
    elif rel == 'race':
        # schedule-dependent counterexample: many fresh processes, 16 threads making their first call at once
        entry = 'race_' + en(kind, v['api'])
        bad = 0; runs = 0
        for prof in ('release', 'dev'):
            for _ in range(150):
                nat = run_native([(entry, v['flags'] & 127, 16, v['buf'])], prof)[0]['impl']
                runs += 1
                if nat.get('panics', 0) or nat.get('distinct', 1) > 1 or nat.get('status') in ('CRASH', 'PANIC'): bad += 1
            natives[prof] = {'processes': runs, 'with_divergent_or_panicking_threads': bad}
            if bad: break
        if bad:
            confirmed = True; notes.append(f'{bad} of {runs} fresh processes had threads that panicked or disagreed on their first concurrent parse')
        else:
            return 'unconfirmed', {'native': natives, 'notes': [f'schedule-dependent: {runs} racing processes did not hit the interleaving; schedule found by the engine: {v.get("schedule")}']}
    elif rel == 'ub':
        return 'unconfirmable', {'native': {}, 'notes': ['out-of-allocation access / failed debug assertion inside a scanner, found on the real MIR with an exact-size buffer allocation; standard-level UB that no native run reliably confirms (triage by reading the MIR location)']}
    elif rel == 'cell':
        return 'unconfirmed', {'native': {}, 'notes': ['runtime-feature cell invariant: a statement over all CPUs and interleavings; this host has one CPU kind']}
    elif rel == 'completable':
        entry = en(kind, v['api'])
        for prof in profs:
            items = [(entry, v['flags'], v['cap'], data.hex())] + [(entry, v['flags'], v['cap'], (data + bytes.fromhex(s)).hex()) for s in v['sigmas']]
            res = run_native(items, prof)
            st = [r['impl'].get('status') for r in res]; natives[prof] = st
            if st[0] == 'P' and 'C' not in st[1:]:
                confirmed = True; notes.append(f'{prof}: Partial, and none of {len(v["sigmas"])} completions reaches Complete')
    elif rel == 'history':
        entry = 'hist_' + ('req' if kind == 'req' else 'resp')
        for prof in profs:
            # history buffers separated by '-' in the hex field: hist1-hist2-...-probe
            h = '-'.join(v['history'] + [v['buf']])
            nat = run_native([(entry, v['flags'], v['cap'], h)], prof)[0]
            natives[prof] = nat
            if nat['impl'].get('differs'): confirmed = True; notes.append(f"{prof}: {nat['impl'].get('differs')}")
    return ('confirmed' if confirmed else 'unconfirmed'), {'native': natives, 'notes': notes}
