//! Native replay: runs the real httparse (and the native build of the reference model) on concrete inputs.
//! Protocol: one request per stdin line `<entry> <flags> <cap> <hexbuf>`; one JSON object per stdout line.
//! flags: bit0 spaces_after_name(resp) bit1 obs_fold(resp) bit2 multi_sp(req) bit3 multi_sp(resp)
//!        bit4 space_before_first bit5 ignore_invalid(resp) bit6 ignore_invalid(req)
use std::io::{self, BufRead, Write};
use std::mem::MaybeUninit;
use std::panic;

use httparse::{Header, ParserConfig, Request, Response, Status};
use std::alloc::{GlobalAlloc, Layout, System};
use std::sync::atomic::{AtomicUsize, Ordering};

/// counts heap allocations so that the parse calls can be bracketed (C19)
struct Counting;
static ALLOCS: AtomicUsize = AtomicUsize::new(0);
unsafe impl GlobalAlloc for Counting {
    unsafe fn alloc(&self, l: Layout) -> *mut u8 { ALLOCS.fetch_add(1, Ordering::Relaxed); System.alloc(l) }
    unsafe fn dealloc(&self, p: *mut u8, l: Layout) { System.dealloc(p, l) }
    unsafe fn realloc(&self, p: *mut u8, l: Layout, n: usize) -> *mut u8 { ALLOCS.fetch_add(1, Ordering::Relaxed); System.realloc(p, l, n) }
}
#[global_allocator]
static GLOBAL: Counting = Counting;
fn allocs() -> usize { ALLOCS.load(Ordering::Relaxed) }

const MAXCAP: usize = 8;
static SENT_NAMES: [&str; MAXCAP] = ["old0", "old1", "old2", "old3", "old4", "old5", "old6", "old7"];
static SENT_VAL: &[u8] = b"sentinel";

fn cfg(flags: u32) -> ParserConfig {
    let mut c = ParserConfig::default();
    c.allow_spaces_after_header_name_in_responses(flags & 1 != 0);
    c.allow_obsolete_multiline_headers_in_responses(flags & 2 != 0);
    c.allow_multiple_spaces_in_request_line_delimiters(flags & 4 != 0);
    c.allow_multiple_spaces_in_response_status_delimiters(flags & 8 != 0);
    c.allow_space_before_first_header_name(flags & 16 != 0);
    c.ignore_invalid_headers_in_responses(flags & 32 != 0);
    c.ignore_invalid_headers_in_requests(flags & 64 != 0);
    c
}

fn loc(buf: &[u8], p: *const u8, len: usize) -> String {
    let b = buf.as_ptr() as usize; let q = p as usize;
    if q >= b && q + len <= b + buf.len() { format!("[{},{}]", q - b, len) } else { format!("[-1,{}]", len) }
}
fn opt_str(buf: &[u8], s: Option<&str>) -> String {
    match s { None => "null".into(), Some(s) => loc(buf, s.as_ptr(), s.len()) }
}
fn utf8_flag(s: Option<&str>) -> bool {
    match s { None => true, Some(s) => std::str::from_utf8(s.as_bytes()).is_ok() }
}
fn headers_json(buf: &[u8], hs: &[Header]) -> String {
    let mut v = Vec::new();
    for h in hs {
        let sentinel = SENT_NAMES.iter().any(|n| n.as_ptr() == h.name.as_ptr()) && h.value.as_ptr() == SENT_VAL.as_ptr();
        if sentinel { v.push("\"old\"".to_string()); continue; }
        let n = loc(buf, h.name.as_ptr(), h.name.len());
        let val = loc(buf, h.value.as_ptr(), h.value.len());
        v.push(format!("[{},{},{}]", n, val, std::str::from_utf8(h.name.as_bytes()).is_ok()));
    }
    format!("[{}]", v.join(","))
}
fn status_json<T>(r: &Result<Status<T>, httparse::Error>, n: impl Fn(&T) -> usize) -> (String, usize) {
    match r {
        Ok(Status::Complete(t)) => ("\"C\"".into(), n(t)),
        Ok(Status::Partial) => ("\"P\"".into(), 0),
        Err(e) => (format!("\"E:{:?}\"", e), 0),
    }
}
fn sentinels() -> [Header<'static>; MAXCAP] {
    let mut a = [httparse::EMPTY_HEADER; MAXCAP];
    for i in 0..MAXCAP { a[i] = Header { name: SENT_NAMES[i], value: SENT_VAL }; }
    a
}

fn run_req(entry: &str, flags: u32, cap: usize, buf: &[u8]) -> String {
    let c = cfg(flags);
    let mut arr = sentinels();
    let mut un: [MaybeUninit<Header>; MAXCAP] = unsafe { MaybeUninit::uninit().assume_init() };
    let mut empty: [Header; 0] = [];
    let (r, req_hdrs_len_before);
    let mut req;
    let a0 = allocs();
    match entry {
        "req" => { req = Request::new(&mut arr[..cap]); req_hdrs_len_before = cap; r = req.parse(buf); }
        "req_cfg" => { req = Request::new(&mut arr[..cap]); req_hdrs_len_before = cap; r = c.parse_request(&mut req, buf); }
        "req_uninit" => { req = Request::new(&mut empty); req_hdrs_len_before = 0; r = req.parse_with_uninit_headers(buf, &mut un[..cap]); }
        _ => { req = Request::new(&mut empty); req_hdrs_len_before = 0; r = c.parse_request_with_uninit_headers(&mut req, buf, &mut un[..cap]); }
    }
    let na = allocs() - a0;
    let (st, n) = status_json(&r, |x| *x);
    let utf = utf8_flag(req.method) && utf8_flag(req.path);
    let head = format!("\"status\":{},\"n\":{},\"allocs\":{},\"method\":{},\"path\":{},\"version\":{},\"hlen\":{},\"hlen_before\":{},\"headers\":{},\"utf8\":{}",
            st, n, na, opt_str(buf, req.method), opt_str(buf, req.path),
            req.version.map(|v| v.to_string()).unwrap_or("null".into()),
            req.headers.len(), req_hdrs_len_before, headers_json(buf, req.headers), utf);
    let init_api = entry == "req" || entry == "req_cfg";
    drop(req);
    // the caller's whole array after the call (initialised-array entry points only): which slots still hold their sentinel
    let cells = if init_api { headers_json(buf, &arr[..cap]) } else { "null".to_string() };
    format!("{{{},\"cells\":{}}}", head, cells)
}

fn run_resp(entry: &str, flags: u32, cap: usize, buf: &[u8]) -> String {
    let c = cfg(flags);
    let mut arr = sentinels();
    let mut un: [MaybeUninit<Header>; MAXCAP] = unsafe { MaybeUninit::uninit().assume_init() };
    let mut empty: [Header; 0] = [];
    let (r, before);
    let mut resp;
    let a0 = allocs();
    match entry {
        "resp" => { resp = Response::new(&mut arr[..cap]); before = cap; r = resp.parse(buf); }
        "resp_cfg" => { resp = Response::new(&mut arr[..cap]); before = cap; r = c.parse_response(&mut resp, buf); }
        _ => { resp = Response::new(&mut empty); before = 0; r = c.parse_response_with_uninit_headers(&mut resp, buf, &mut un[..cap]); }
    }
    let na = allocs() - a0;
    let (st, n) = status_json(&r, |x| *x);
    let utf = utf8_flag(resp.reason);
    let head = format!("\"status\":{},\"n\":{},\"allocs\":{},\"version\":{},\"code\":{},\"reason\":{},\"hlen\":{},\"hlen_before\":{},\"headers\":{},\"utf8\":{}",
            st, n, na, resp.version.map(|v| v.to_string()).unwrap_or("null".into()),
            resp.code.map(|v| v.to_string()).unwrap_or("null".into()),
            opt_str(buf, resp.reason), resp.headers.len(), before, headers_json(buf, resp.headers), utf);
    let init_api = entry == "resp" || entry == "resp_cfg";
    drop(resp);
    let cells = if init_api { headers_json(buf, &arr[..cap]) } else { "null".to_string() };
    format!("{{{},\"cells\":{}}}", head, cells)
}

fn run_headers(cap: usize, buf: &[u8]) -> String {
    let mut arr = sentinels();
    let a0 = allocs();
    let r = httparse::parse_headers(buf, &mut arr[..cap]);
    let na = allocs() - a0;
    match r {
        Ok(Status::Complete((n, hs))) => format!("{{\"status\":\"C\",\"n\":{},\"allocs\":{},\"hlen\":{},\"headers\":{}}}", n, na, hs.len(), headers_json(buf, hs)),
        Ok(Status::Partial) => format!("{{\"status\":\"P\",\"n\":0,\"allocs\":{},\"hlen\":0,\"headers\":[]}}", na),
        Err(e) => format!("{{\"status\":\"E:{:?}\",\"n\":0,\"allocs\":{},\"hlen\":0,\"headers\":[]}}", e, na),
    }
}

fn run_chunk(buf: &[u8]) -> String {
    let a0 = allocs();
    let r = httparse::parse_chunk_size(buf);
    let na = allocs() - a0;
    match r {
        Ok(Status::Complete((n, size))) => format!("{{\"status\":\"C\",\"n\":{},\"allocs\":{},\"size\":{}}}", n, na, size),
        Ok(Status::Partial) => format!("{{\"status\":\"P\",\"n\":0,\"allocs\":{},\"size\":0}}", na),
        Err(_) => format!("{{\"status\":\"E:InvalidChunkSize\",\"n\":0,\"allocs\":{},\"size\":0}}", na),
    }
}

/// C18: parse the history buffers, then the probe, on ONE Request/Response value and header array; compare the probe's
/// outcome with the same probe on a fresh value over a fresh array of the same current length.
fn run_hist(is_req: bool, flags: u32, cap: usize, bufs: &[Vec<u8>], pre: &[Option<usize>]) -> String {
    let c = cfg(flags);
    let (hist, probe) = bufs.split_at(bufs.len() - 1);
    let probe: &[u8] = &probe[0];
    // a history item `pK` is the first K bytes of the probe buffer ITSELF (same memory): the documented read-more-and-parse-again loop
    let hist: Vec<&[u8]> = hist.iter().enumerate().map(|(i, h)| match pre[i] { Some(k) => &probe[..k.min(probe.len())], None => &h[..] }).collect();
    let mut arr = sentinels(); let mut arr2 = sentinels();
    if is_req {
        let mut req = Request::new(&mut arr[..cap]);
        for h in hist.iter() { let _ = c.parse_request(&mut req, h); }
        let len_now = req.headers.len();
        let r1 = c.parse_request(&mut req, probe);
        let mut fresh = Request::new(&mut arr2[..len_now]);
        let r2 = c.parse_request(&mut fresh, probe);
        let mut d = String::new();
        if r1 != r2 { d = format!("status {:?} vs fresh {:?}", r1, r2); }
        else if let Ok(Status::Complete(_)) = r1 {
            if req.method != fresh.method || req.path != fresh.path || req.version != fresh.version { d = format!("fields {:?}/{:?}/{:?} vs fresh {:?}/{:?}/{:?}", req.method, req.path, req.version, fresh.method, fresh.path, fresh.version); }
            else if req.headers.len() != fresh.headers.len() || req.headers.iter().zip(fresh.headers.iter()).any(|(a, b)| a != b) { d = "headers differ".into(); }
        }
        return format!("{{\"status\":\"H\",\"n\":0,\"differs\":{}}}", if d.is_empty() { "null".to_string() } else { format!("{:?}", d) });
    }
    let mut resp = Response::new(&mut arr[..cap]);
    for h in hist.iter() { let _ = c.parse_response(&mut resp, h); }
    let len_now = resp.headers.len();
    let r1 = c.parse_response(&mut resp, probe);
    let mut fresh = Response::new(&mut arr2[..len_now]);
    let r2 = c.parse_response(&mut fresh, probe);
    let mut d = String::new();
    if r1 != r2 { d = format!("status {:?} vs fresh {:?}", r1, r2); }
    else if let Ok(Status::Complete(_)) = r1 {
        if resp.version != fresh.version || resp.code != fresh.code || resp.reason != fresh.reason { d = format!("fields {:?}/{:?}/{:?} vs fresh {:?}/{:?}/{:?}", resp.version, resp.code, resp.reason, fresh.version, fresh.code, fresh.reason); }
        else if resp.headers.len() != fresh.headers.len() || resp.headers.iter().zip(fresh.headers.iter()).any(|(a, b)| a != b) { d = "headers differ".into(); }
    }
    format!("{{\"status\":\"H\",\"n\":0,\"differs\":{}}}", if d.is_empty() { "null".to_string() } else { format!("{:?}", d) })
}

fn kind_name(k: u8) -> &'static str {
    match k { 100 => "C", 101 => "P", 0 => "E:HeaderName", 1 => "E:HeaderValue", 2 => "E:NewLine", 3 => "E:Status",
              4 => "E:Token", 5 => "E:TooManyHeaders", 6 => "E:Version", 7 => "E:InvalidChunkSize", _ => "?" }
}
fn ref_hdrs(count: usize, h: &[refmodel::Hdr; refmodel::K]) -> String {
    let mut v = Vec::new();
    for i in 0..count.min(refmodel::K) { v.push(format!("[{},{},{},{}]", h[i].no, h[i].nl, h[i].vo, h[i].vl)); }
    format!("[{}]", v.join(","))
}
fn run_ref(entry: &str, flags: u32, cap: usize, buf: &[u8]) -> String {
    if entry == "chunk" {
        let c = refmodel::ref_chunk(buf);
        return format!("{{\"status\":\"{}\",\"n\":{},\"size\":{}}}", kind_name(c.kind), c.n, c.size);
    }
    if entry == "headers" {
        let o = refmodel::Opts { spaces_after_name: false, folding: false, space_before_first: false, ignore_invalid: false };
        let r = refmodel::ref_headers(buf, &o, cap);
        return format!("{{\"status\":\"{}\",\"n\":{},\"count\":{},\"headers\":{}}}", kind_name(r.kind), r.n, r.count, ref_hdrs(r.count, &r.h));
    }
    if entry.starts_with("req") {
        let default = entry == "req" || entry == "req_uninit";
        let f = if default { 0 } else { flags };
        let o = refmodel::Opts { spaces_after_name: false, folding: false, space_before_first: f & 16 != 0, ignore_invalid: f & 64 != 0 };
        let r = refmodel::ref_request(buf, &refmodel::Cfg { multi: f & 4 != 0, o }, cap);
        return format!("{{\"status\":\"{}\",\"n\":{},\"method\":{},\"path\":{},\"version\":{},\"count\":{},\"headers\":{}}}",
            kind_name(r.kind), r.n,
            if r.has_method { format!("[{},{}]", r.mo, r.ml) } else { "null".into() },
            if r.has_path { format!("[{},{}]", r.to, r.tl) } else { "null".into() },
            if r.has_ver { r.ver.to_string() } else { "null".into() }, r.count, ref_hdrs(r.count, &r.h));
    }
    let default = entry == "resp" || entry == "resp_uninit";
    let f = if default { 0 } else { flags };
    let o = refmodel::Opts { spaces_after_name: f & 1 != 0, folding: f & 2 != 0, space_before_first: f & 16 != 0, ignore_invalid: f & 32 != 0 };
    let r = refmodel::ref_response(buf, &refmodel::Cfg { multi: f & 8 != 0, o }, cap);
    format!("{{\"status\":\"{}\",\"n\":{},\"version\":{},\"code\":{},\"reason\":{},\"count\":{},\"headers\":{}}}",
        kind_name(r.kind), r.n,
        if r.has_ver { r.ver.to_string() } else { "null".into() },
        if r.has_code { (r.d0 as u32 * 100 + r.d1 as u32 * 10 + r.d2 as u32).to_string() } else { "null".into() },
        if r.has_reason { if r.rstatic { format!("[-1,0]") } else { format!("[{},{}]", r.ro, r.rl) } } else { "null".into() },
        r.count, ref_hdrs(r.count, &r.h))
}

fn unhex(s: &str) -> Vec<u8> {
    let b = s.as_bytes(); let mut v = Vec::with_capacity(b.len() / 2);
    let h = |c: u8| -> u8 { match c { b'0'..=b'9' => c - b'0', b'a'..=b'f' => c - b'a' + 10, b'A'..=b'F' => c - b'A' + 10, _ => 0 } };
    let mut i = 0; while i + 1 < b.len() { v.push(h(b[i]) * 16 + h(b[i + 1])); i += 2; }
    v
}

fn main() {
    panic::set_hook(Box::new(|_| {}));
    let stdin = io::stdin(); let stdout = io::stdout(); let mut out = stdout.lock();
    for line in stdin.lock().lines() {
        let line = match line { Ok(l) => l, Err(_) => break };
        let p: Vec<&str> = line.split_whitespace().collect();
        if p.len() < 3 { continue; }
        let entry = p[0].to_string(); let flags: u32 = p[1].parse().unwrap_or(0); let cap: usize = p[2].parse().unwrap_or(0);
        if entry.starts_with("hist_") {
            let items: Vec<&str> = (if p.len() > 3 { p[3] } else { "" }).split('-').collect();
            let pre: Vec<Option<usize>> = items.iter().map(|s| if s.starts_with('p') { s[1..].parse().ok() } else { None }).collect();
            let bufs: Vec<Vec<u8>> = items.iter().map(|s| if s.starts_with('p') { Vec::new() } else { unhex(s) }).collect();
            let is_req = entry == "hist_req";
            let res = panic::catch_unwind(panic::AssertUnwindSafe(|| run_hist(is_req, flags, cap.min(MAXCAP), &bufs, &pre)));
            let imp = match res { Ok(s) => s, Err(_) => "{\"status\":\"PANIC\",\"n\":0,\"differs\":\"panic\"}".into() };
            let _ = writeln!(out, "{{\"impl\":{},\"ref\":{{}}}}", imp);
            let _ = out.flush();
            continue;
        }
        if entry.starts_with("race_") {
            // C13 confirmation: `cap` threads make their FIRST parse call of this process at the same moment; all results must agree
            let e2 = entry[5..].to_string();
            let data = std::sync::Arc::new(unhex(if p.len() > 3 { p[3] } else { "" }));
            let nthreads = cap.max(2);
            let barrier = std::sync::Arc::new(std::sync::Barrier::new(nthreads));
            let mut hs = Vec::new();
            for _ in 0..nthreads {
                let (d, b, e3) = (data.clone(), barrier.clone(), e2.clone());
                hs.push(std::thread::spawn(move || {
                    b.wait();
                    let buf: &[u8] = &d;
                    match e3.as_str() {
                        "headers" => run_headers(MAXCAP, buf),
                        "chunk" => run_chunk(buf),
                        e if e.starts_with("req") => run_req(e, flags, 4, buf),
                        e => run_resp(e, flags, 4, buf),
                    }
                }));
            }
            let mut outs: Vec<String> = Vec::new(); let mut panics = 0;
            for h in hs {
                match h.join() {
                    Ok(s) => {
                        // the allocation counter is process-global: other threads' activity shows up in it -> not part of the comparison
                        let t = match (s.find("\"allocs\":"), s.find(",\"method\"").or(s.find(",\"version\"")).or(s.find(",\"hlen\"")).or(s.find(",\"size\""))) {
                            (Some(a), Some(b)) if b > a => format!("{}{}", &s[..a], &s[b + 1..]),
                            _ => s,
                        };
                        outs.push(t)
                    }
                    Err(_) => panics += 1,
                }
            }
            outs.sort(); outs.dedup();
            let _ = writeln!(out, "{{\"impl\":{{\"status\":\"R\",\"n\":0,\"panics\":{},\"distinct\":{}}},\"ref\":{{}}}}", panics, outs.len());
            let _ = out.flush();
            continue;
        }
        if entry.starts_with("timecap_") {
            // C20 confirmation for families whose work depends on the NUMBER of header lines: like time_, but with a header array of 4096
            // slots (allocated once, outside the timed region) and no formatting of the result
            let e2 = entry[8..].to_string();
            let data = unhex(if p.len() > 3 { p[3] } else { "" });
            let reps = cap.max(1);
            let c = cfg(flags);
            let mut hdrs = vec![httparse::EMPTY_HEADER; 4096];
            let mut samples = Vec::new();
            for _ in 0..5 {
                let t0 = std::time::Instant::now();
                for _ in 0..reps {
                    let buf: &[u8] = &data;
                    let ok = match e2.as_str() {
                        "headers" => httparse::parse_headers(buf, &mut hdrs).is_ok(),
                        e if e.starts_with("req") => { let mut r = Request::new(&mut hdrs); c.parse_request(&mut r, buf).is_ok() }
                        _ => { let mut r = Response::new(&mut hdrs); c.parse_response(&mut r, buf).is_ok() }
                    };
                    std::hint::black_box(ok);
                }
                samples.push(t0.elapsed().as_nanos() as u64);
            }
            samples.sort();
            let _ = writeln!(out, "{{\"impl\":{{\"status\":\"T\",\"n\":0,\"ns\":{}}},\"ref\":{{}}}}", samples[2]);
            let _ = out.flush();
            continue;
        }
        if entry.starts_with("time_") {
            // C20 confirmation: wall time of `cap` repetitions of the parse (median of 5 batches), in nanoseconds
            let e2 = entry[5..].to_string();
            let data = unhex(if p.len() > 3 { p[3] } else { "" });
            let reps = cap.max(1);
            let mut samples = Vec::new();
            for _ in 0..5 {
                let t0 = std::time::Instant::now();
                for _ in 0..reps {
                    let buf: &[u8] = &data;
                    let s = match e2.as_str() {
                        "headers" => run_headers(MAXCAP, buf),
                        "chunk" => run_chunk(buf),
                        e if e.starts_with("req") => run_req(e, flags, MAXCAP, buf),
                        e => run_resp(e, flags, MAXCAP, buf),
                    };
                    std::hint::black_box(s);
                }
                samples.push(t0.elapsed().as_nanos() as u64);
            }
            samples.sort();
            let _ = writeln!(out, "{{\"impl\":{{\"status\":\"T\",\"n\":0,\"ns\":{}}},\"ref\":{{}}}}", samples[2]);
            let _ = out.flush();
            continue;
        }
        let data = unhex(if p.len() > 3 { p[3] } else { "" });
        // exact-size heap allocation so that an over-read is at least adjacent to foreign memory
        let boxed: Box<[u8]> = data.into_boxed_slice();
        let e2 = entry.clone();
        let res = panic::catch_unwind(panic::AssertUnwindSafe(|| {
            let buf: &[u8] = &boxed;
            match e2.as_str() {
                "headers" => run_headers(cap.min(MAXCAP), buf),
                "chunk" => run_chunk(buf),
                e if e.starts_with("req") => run_req(e, flags, cap.min(MAXCAP), buf),
                e => run_resp(e, flags, cap.min(MAXCAP), buf),
            }
        }));
        let imp = match res { Ok(s) => s, Err(_) => "{\"status\":\"PANIC\",\"n\":0}".into() };
        let rf = run_ref(&entry, flags, cap.min(MAXCAP), &boxed);
        let _ = writeln!(out, "{{\"impl\":{},\"ref\":{}}}", imp, rf);
        let _ = out.flush();
    }
}
