//! Engine K: Kani proof harnesses over the compiled httparse (public API and `_benchable`).
//! Oracle = /verif/refmodel (the same reference model engine M executes as MIR).
#![allow(unused)]

#[cfg(kani)]
mod proofs {
    use httparse::{parse_chunk_size, Status};
    use refmodel::{ref_chunk, COMPLETE, PARTIAL};

    fn check_chunk(buf: &[u8]) {
        let r = parse_chunk_size(buf);
        let s = ref_chunk(buf);
        match r {
            Ok(Status::Complete((n, size))) => {
                assert!(s.kind == COMPLETE, "implementation accepts a line the specification does not");
                assert!(n == s.n, "offset is not just past the first CRLF");
                assert!(size == s.size, "size is not the exact value of the digits");
            }
            Ok(Status::Partial) => assert!(s.kind == PARTIAL, "Partial where the specification says Complete or Err"),
            Err(_) => assert!(s.kind != COMPLETE && s.kind != PARTIAL, "Err where the specification says Complete or Partial"),
        }
    }

    macro_rules! chunk_spec {
        ($name:ident, $n:expr, $u:expr) => {
            #[kani::proof]
            #[kani::unwind($u)]
            fn $name() {
                let buf: [u8; $n] = kani::any();
                let len: usize = kani::any();
                kani::assume(len <= $n);
                check_chunk(&buf[..len]);
            }
        };
    }
    chunk_spec!(chunk_spec_8, 8, 10);
    chunk_spec!(chunk_spec_12, 12, 14);
    chunk_spec!(chunk_spec_20, 20, 22);

    // vacuity twin: must FAIL (a complete line is reachable)
    #[kani::proof]
    #[kani::unwind(10)]
    fn chunk_canary_reaches_complete() {
        let buf: [u8; 8] = kani::any();
        let len: usize = kani::any();
        kani::assume(len <= 8);
        let r = parse_chunk_size(&buf[..len]);
        assert!(!matches!(r, Ok(Status::Complete(_))), "canary: Complete is reachable");
    }

    // C02 on the compiled code: results on a prefix are stable under extension
    macro_rules! chunk_prefix {
        ($name:ident, $n:expr, $u:expr) => {
            #[kani::proof]
            #[kani::unwind($u)]
            fn $name() {
                let buf: [u8; $n] = kani::any();
                let len: usize = kani::any();
                let k: usize = kani::any();
                kani::assume(len <= $n && k <= len);
                let a = parse_chunk_size(&buf[..k]);
                let b = parse_chunk_size(&buf[..len]);
                match a {
                    Ok(Status::Complete(x)) => assert!(b == Ok(Status::Complete(x)), "Complete on a prefix changes when bytes are appended"),
                    Err(_) => assert!(b.is_err(), "Err on a prefix disappears when bytes are appended"),
                    Ok(Status::Partial) => {}
                }
            }
        };
    }
    chunk_prefix!(chunk_prefix_8, 8, 10);
    chunk_prefix!(chunk_prefix_14, 14, 16);

    // C11 on the compiled code: Partial only while some continuation completes
    macro_rules! chunk_partial {
        ($name:ident, $n:expr, $u:expr) => {
            #[kani::proof]
            #[kani::unwind($u)]
            fn $name() {
                let data: [u8; $n] = kani::any();
                let len: usize = kani::any();
                kani::assume(len <= $n);
                if parse_chunk_size(&data[..len]) == Ok(Status::Partial) {
                    let mut ext = [0u8; $n + 3];
                    let mut i = 0;
                    while i < len { ext[i] = data[i]; i += 1; }
                    // sigma 1: "\r\n"   sigma 2: "\n"   sigma 3: "0\r\n"
                    ext[len] = b'\r'; ext[len + 1] = b'\n';
                    let c1 = matches!(parse_chunk_size(&ext[..len + 2]), Ok(Status::Complete(_)));
                    ext[len] = b'\n';
                    let c2 = matches!(parse_chunk_size(&ext[..len + 1]), Ok(Status::Complete(_)));
                    ext[len] = b'0'; ext[len + 1] = b'\r'; ext[len + 2] = b'\n';
                    let c3 = matches!(parse_chunk_size(&ext[..len + 3]), Ok(Status::Complete(_)));
                    assert!(c1 || c2 || c3, "Partial, but no continuation completes the chunk-size line");
                }
            }
        };
    }
    chunk_partial!(chunk_partial_8, 8, 13);
    chunk_partial!(chunk_partial_12, 12, 17);
}
